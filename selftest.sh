#!/bin/bash
# Determinism and oracle self checks (not a property check).
#  1. every scenario batch hashed at 1 and 16 harness threads, in separate processes, twice: hashes identical
#  2. the exact integer oracle against python fractions
set -u
HERE="$(cd "$(dirname "$0")" && pwd)"
BIN="$HERE/sim/target/release/avsim"
RUNS="${SELFTEST_RUNS:-20000}"
fail=0
for p in C02 C05 C06 C08 C09 C11 C13 C14 C15 C17 C18 C19 C20; do
  for seed in 1 7 123456789; do
    a=$(VERIF_THREADS=1 "$BIN" --trace-hash --property $p --seed $seed --runs $RUNS | grep TRACEHASH)
    b=$(VERIF_THREADS=16 "$BIN" --trace-hash --property $p --seed $seed --runs $RUNS | grep TRACEHASH)
    c=$(VERIF_THREADS=5 "$BIN" --trace-hash --property $p --seed $seed --runs $RUNS | grep TRACEHASH)
    if [ "$a" != "$b" ] || [ "$a" != "$c" ] || [ -z "$a" ]; then
      echo "NONDETERMINISM property=$p seed=$seed: [$a] [$b] [$c]"; fail=1
    else
      echo "deterministic $a"
    fi
  done
done
"$BIN" --oracle-selftest > /tmp/avsim_oracle_cases.$$.json || { echo "oracle selftest could not run"; fail=1; }
python3 "$HERE/oracle_selftest.py" /tmp/avsim_oracle_cases.$$.json || fail=1
rm -f /tmp/avsim_oracle_cases.$$.json
if [ $fail -ne 0 ]; then echo "SELFTEST FAILED"; exit 2; fi
echo "SELFTEST OK"
