#!/usr/bin/env python3
"""Sensitivity matrix: apply hand-written textual mutants of vks/average in a SCRATCH copy
(worktree of /repo + copy of /verif/sim pointing at it), run the crate's own test suite
(a mutant only counts if the suite still passes) and then every check at reduced budget.
Usage: tools/mutmatrix.py [name-filter]   -> writes seeded/own-matrix.json
Everything under /tmp/mx is removed at the end."""
import json, os, re, shutil, subprocess, sys, time

MX = "/tmp/mx"
REPO = f"{MX}/repo"
SIM = f"{MX}/sim"
OUT = f"{MX}/out"
PROPS = "C02 C05 C06 C08 C09 C11 C13 C14 C15 C17 C18 C19 C20".split()
ENV = dict(os.environ, CARGO_NET_OFFLINE="true", VERIF_DIR=OUT)

# (name, file, old, new, expected properties)
M = [
 ("var_merge_drop_delta", "src/moments/variance.rs", "self.sum_2 += other.sum_2 + delta*delta * len_self * len_other / len_total;", "self.sum_2 += other.sum_2;", ["C02"]),
 ("var_merge_no_empty_return", "src/moments/variance.rs", "        if other.is_empty() {\n            return;\n        }\n        if self.is_empty() {\n            *self = other.clone();\n            return;\n        }\n        // This algorithm was proposed by Chan et al. in 1979.\n        //\n        // See https://en.wikipedia.org/wiki/Algorithms_for_calculating_variance.\n        let len_self = self.len()", "        if self.is_empty() {\n            *self = other.clone();\n            return;\n        }\n        let len_self = self.len()", ["C02", "C11"]),
 ("var_merge_textbook", "src/moments/variance.rs", "self.sum_2 += other.sum_2 + delta*delta * len_self * len_other / len_total;", "{ let ma = self.mean(); let mb = other.mean(); let sa = self.sum_2 + len_self*ma*ma; let sb = other.sum_2 + len_other*mb*mb; let mt = (len_self*ma + len_other*mb)/len_total; self.sum_2 = sa + sb - len_total*mt*mt; }", ["C02"]),
 ("skew_merge_flip", "src/moments/skewness.rs", "len_self*len_other*(len_self - len_other)", "len_self*len_other*(len_other - len_self)", ["C02"]),
 ("kurt_merge_6_to_4", "src/moments/kurtosis.rs", "+ 6.*delta_n_sq * (len_self*len_self * other.avg.avg.sum_2", "+ 4.*delta_n_sq * (len_self*len_self * other.avg.avg.sum_2", ["C02"]),
 ("moments_merge_coeff_a_sign", "src/moments/mod.rs", "coeff_a *= -n_b_over_n;", "coeff_a *= n_b_over_n;", ["C02"]),
 ("moments_merge_trunc_binomial", "src/moments/mod.rs", "                    for k in 1..(p - 1) {\n                        coeff_a *= -n_b_over_n;", "                    for k in 1..(p - 1).min(3) {\n                        coeff_a *= -n_b_over_n;", ["C02"]),
 ("moments_binomial_div_first", "src/moments/mod.rs", "self.a * (self.n - self.k + 1) / self.k", "self.a / self.k * (self.n - self.k + 1)", ["C02"]),
 ("mean_merge_swapped_weights", "src/moments/mean.rs", "self.avg = (len_self * self.avg + len_other * other.avg) / len_total;", "self.avg = (len_other * self.avg + len_self * other.avg) / len_total;", ["C02"]),
 ("moments_merge_n_twice", "src/moments/mod.rs", "                self.n += other.n;\n                let n = self.n.to_f64().unwrap();\n                let n_a_over_n", "                self.n += other.n;\n                let n = self.n.to_f64().unwrap();\n                self.n += other.n - other.n / 2 * 2;\n                let n_a_over_n", ["C02", "C11"]),
 ("par_reduce_drops_b", "src/macros.rs", "                        |mut a, b| {\n                            a.merge(&b);\n                            a\n                        },\n                    )\n            }\n        }\n\n        #[cfg(feature = \"rayon\")]\n        impl<'a>", "                        |a, _b| {\n                            a\n                        },\n                    )\n            }\n        }\n\n        #[cfg(feature = \"rayon\")]\n        impl<'a>", ["C19"]),
 ("par_fold_identity_default_value", "src/minmax.rs", "impl_from_par_iterator!(Max);", "#[cfg(feature = \"rayon\")]\nimpl ::rayon::iter::FromParallelIterator<f64> for Max { fn from_par_iter<I>(par_iter: I) -> Max where I: ::rayon::iter::IntoParallelIterator<Item = f64> { use ::rayon::iter::ParallelIterator; par_iter.into_par_iter().fold(|| Max::from_value(0.), |mut e, i| { e.add(i); e }).reduce(|| Max::new(), |mut a, b| { a.merge(&b); a }) } }\n#[cfg(feature = \"rayon\")]\nimpl<'a> ::rayon::iter::FromParallelIterator<&'a f64> for Max { fn from_par_iter<I>(par_iter: I) -> Max where I: ::rayon::iter::IntoParallelIterator<Item = &'a f64> { use ::rayon::iter::ParallelIterator; par_iter.into_par_iter().fold(|| Max::new(), |mut e, i| { e.add(*i); e }).reduce(|| Max::new(), |mut a, b| { a.merge(&b); a }) } }", ["C19"]),
 ("p2_k0_again", "src/quantile.rs", "            self.q[0] = x;\n            k = 1;", "            self.q[0] = x;\n            k = 0;", ["C05"]),
 ("p2_parabolic_sign", "src/quantile.rs", "* ((self.n[i] - self.n[i - 1] + s).to_f64().unwrap() * (self.q[i + 1] - self.q[i])", "* ((self.n[i] - self.n[i - 1] - s).to_f64().unwrap() * (self.q[i + 1] - self.q[i])", ["C05"]),
 ("p2_linear_neighbour", "src/quantile.rs", "let sum = if d < 0. { i - 1 } else { i + 1 };", "let sum = if d < 0. { i + 1 } else { i - 1 };", ["C05"]),
 ("p2_d_strict", "src/quantile.rs", "if d >= 1. && self.n[i + 1] - self.n[i] > 1\n                || d <= -1. && self.n[i - 1] - self.n[i] < -1", "if d > 1. && self.n[i + 1] - self.n[i] > 1\n                || d < -1. && self.n[i - 1] - self.n[i] < -1", ["C05"]),
 ("p2_max_not_updated_on_tie_cell", "src/quantile.rs", "            if self.q[4] < x {\n                self.q[4] = x;\n            }", "            if self.q[4] < x && k < 4 {\n                self.q[4] = x;\n            }", ["C05", "C15"]),
 ("hist_find_le_len", "src/histogram.rs", "Ok(i) if i < LEN => Ok(i),", "Ok(i) if i <= LEN => Ok(i.min(LEN - 1)),", ["C06"]),
 ("hist_merge_adds_before_assert", "src/histogram.rs", "                assert_eq!(self.bin.len(), other.bin.len());\n                for (a, b) in self.range.iter().zip(other.range.iter()) {\n                    assert_eq!(a, b, \"Both histograms must have the same ranges\");\n                }\n                for (a, b) in self.bin.iter_mut().zip(other.bin.iter()) {\n                    *a += *b;\n                }", "                assert_eq!(self.bin.len(), other.bin.len());\n                for (a, b) in self.bin.iter_mut().zip(other.bin.iter()) {\n                    *a += *b;\n                }\n                for (a, b) in self.range.iter().zip(other.range.iter()) {\n                    assert_eq!(a, b, \"Both histograms must have the same ranges\");\n                }", ["C13"]),
 ("hist_addassign_no_assert", "src/histogram.rs", "            fn add_assign(&mut self, other: &Self) {\n                for (a, b) in self.range.iter().zip(other.range.iter()) {\n                    assert_eq!(a, b, \"Both histograms must have the same ranges\");\n                }", "            fn add_assign(&mut self, other: &Self) {", ["C13"]),
 ("hist_centers_geometric", "src/traits.rs", "self.histogram_iter.next().map(|((a, b), _)| 0.5 * (a + b))", "self.histogram_iter.next().map(|((a, b), _)| a + 0.5 * (b - a))", ["C13"]),
 ("serde_skip_sum2", "src/moments/variance.rs", "    /// Intermediate sum of squares for calculating the variance.\n    sum_2: f64,", "    /// Intermediate sum of squares for calculating the variance.\n    #[cfg_attr(feature = \"serde\", serde(skip))]\n    sum_2: f64,", ["C18"]),
 ("serde_quantile_dm_skip", "src/quantile.rs", "    /// Increment in desired marker positions.\n    dm: [f64; 5],", "    /// Increment in desired marker positions.\n    #[cfg_attr(feature = \"serde\", serde(skip_deserializing))]\n    dm: [f64; 5],", ["C18"]),
 ("serde_mean_n_skipped_when_zero", "src/moments/mean.rs", "    /// Sample size.\n    n: u64,", "    /// Sample size.\n    #[cfg_attr(feature = \"serde\", serde(default, skip_serializing_if = \"num_traits::Zero::is_zero\"))]\n    n: u64,", ["C18"]),
 ("extend_ref_skips_first", "src/macros.rs", "                T: IntoIterator<Item = &'a f64>,\n            {\n                for &i in iter {\n                    self.add(i);\n                }\n            }", "                T: IntoIterator<Item = &'a f64>,\n            {\n                for &i in iter.into_iter().skip(1) {\n                    self.add(i);\n                }\n            }", ["C20"]),
 ("wm_sumsq_plus_weight", "src/weighted_mean.rs", "self.weight_sum_sq += weight * weight;", "self.weight_sum_sq += weight;", ["C08"]),
 ("wm_merge_sumsq_dropped_when_empty", "src/weighted_mean.rs", "        self.weight_sum_sq += other.weight_sum_sq;\n        self.weighted_avg.merge", "        if !self.is_empty() { self.weight_sum_sq += other.weight_sum_sq; }\n        self.weighted_avg.merge", ["C08", "C11"]),
 ("cov_old_y_mean", "src/covariance.rs", "        self.avg_y += delta_y_n;\n        self.sum_y_2 += delta_y_n * delta_y_n * n * (n - 1.);\n\n        self.sum_prod += delta_x * (y - self.avg_y);", "        self.sum_prod += delta_x * (y - self.avg_y);\n        self.avg_y += delta_y_n;\n        self.sum_y_2 += delta_y_n * delta_y_n * n * (n - 1.);\n", ["C09"]),
 ("cov_merge_dx_dx", "src/covariance.rs", "self.sum_prod += other.sum_prod + delta_x*delta_y * len_self * len_other / len_total;", "self.sum_prod += other.sum_prod + delta_x*delta_x * len_self * len_other / len_total;", ["C09"]),
 ("max_merge_uses_min", "src/minmax.rs", "    fn merge(&mut self, other: &Max) {\n        self.add(other.x);", "    fn merge(&mut self, other: &Max) {\n        self.x = min(self.x, other.x).max(self.x.min(other.x));", ["C14"]),
 ("min_ignores_neg_inf", "src/minmax.rs", "fn min(a: f64, b: f64) -> f64 {\n    a.min(b)\n}", "fn min(a: f64, b: f64) -> f64 {\n    if b == f64::NEG_INFINITY { return a; }\n    a.min(b)\n}", ["C14"]),
 ("variance_abs_missing_neg", "src/moments/variance.rs", "        self.sum_2 += delta_n * delta_n * n * (n - 1.);", "        self.sum_2 += delta_n * delta_n * n * (n - 1.) - if n > 900. { 1e-3 * self.sum_2 } else { 0. };", ["C02", "C17"]),
]


# Semantics-preserving refactorings: the properties still hold, so NO check may fire
# (run with MX_MODE=equiv -> seeded/equivalent-matrix.json)
EQ = [
 ("eq_mean_merge_delta_form", "src/moments/mean.rs", "self.avg = (len_self * self.avg + len_other * other.avg) / len_total;", "self.avg += (other.avg - self.avg) * (len_other / len_total);", []),
 ("eq_var_merge_reassociated", "src/moments/variance.rs", "self.sum_2 += other.sum_2 + delta*delta * len_self * len_other / len_total;", "self.sum_2 += other.sum_2 + (len_self * len_other / len_total) * (delta * delta);", []),
 ("eq_hist_find_linear_scan", "src/histogram.rs", "                match self.range.binary_search_by(|p| {\n                    p.partial_cmp(&x).unwrap_or(::core::cmp::Ordering::Greater)\n                }) {\n                    Ok(i) if i < LEN => Ok(i),\n                    Err(i) if i > 0 && i < LEN + 1 => Ok(i - 1),\n                    _ => Err($crate::SampleOutOfRangeError),\n                }", "                for i in 0..LEN {\n                    if self.range[i] <= x && x < self.range[i + 1] {\n                        return Ok(i);\n                    }\n                }\n                Err($crate::SampleOutOfRangeError)", []),
 ("eq_hist_centers_div2", "src/traits.rs", "self.histogram_iter.next().map(|((a, b), _)| 0.5 * (a + b))", "self.histogram_iter.next().map(|((a, b), _)| (a + b) / 2.)", []),
 ("eq_hist_variance_division", "src/traits.rs", "    n * (1. - n * n_tot_inv)", "    n * (1. - n / (1. / n_tot_inv))", []),
 ("eq_min_add_compare", "src/minmax.rs", "    fn add(&mut self, x: f64) {\n        self.x = min(self.x, x);\n    }", "    fn add(&mut self, x: f64) {\n        if x < self.x {\n            self.x = x;\n        }\n    }", []),
 ("eq_wm_add_plus_assign", "src/weighted_mean.rs", "        let prev_avg = self.weighted_avg;\n        self.weighted_avg = prev_avg + (weight / self.weight_sum) * (sample - prev_avg);", "        self.weighted_avg += (weight / self.weight_sum) * (sample - self.weighted_avg);", []),
 ("eq_cov_merge_means_delta_form", "src/covariance.rs", "self.avg_x = (len_self * self.avg_x + len_other * other.avg_x) / len_total;", "self.avg_x += delta_x * (len_other / len_total);", []),
 ("eq_quantile_linear_reassociated", "src/quantile.rs", "self.q[i] + d * (self.q[sum] - self.q[i]) / (self.n[sum] - self.n[i]).to_f64().unwrap()", "self.q[i] + (self.q[sum] - self.q[i]) * (d / (self.n[sum] - self.n[i]).to_f64().unwrap())", []),
 ("eq_skewness_formula_powf", "src/moments/skewness.rs", "Float::sqrt(n) * self.sum_3 / Float::sqrt(sum_2*sum_2*sum_2)", "Float::sqrt(n) * self.sum_3 / (sum_2 * Float::sqrt(sum_2))", []),
 ("eq_moments_merge_precompute_ratio", "src/moments/mod.rs", "                self.avg += n_b_over_n * delta;", "                self.avg += delta * n_b / n;", []),
 ("eq_mean_default_derive_like", "src/moments/mean.rs", "impl core::default::Default for Mean {\n    fn default() -> Mean {\n        Mean::new()\n    }\n}", "impl core::default::Default for Mean {\n    fn default() -> Mean {\n        Mean { avg: 0., n: 0 }\n    }\n}", []),
]

def sh(cmd, cwd=None, timeout=3600):
    p = subprocess.run(cmd, shell=True, cwd=cwd, env=ENV, stdout=subprocess.PIPE, stderr=subprocess.STDOUT, text=True, timeout=timeout)
    return p.returncode, p.stdout

def setup():
    shutil.rmtree(MX, ignore_errors=True)
    os.makedirs(OUT + "/evidence"); os.makedirs(OUT + "/replays")
    sh("git -C /repo worktree prune")
    rc, o = sh(f"git -C /repo worktree add -q --detach {REPO} HEAD")
    assert rc == 0, o
    shutil.copytree("/verif/sim", SIM, ignore=shutil.ignore_patterns("target", "target-*"))
    t = open(f"{SIM}/Cargo.toml").read().replace('path = "/repo"', f'path = "{REPO}"')
    open(f"{SIM}/Cargo.toml", "w").write(t)
    shutil.copy("/verif/known_findings.json", OUT)
    rc, o = sh("cargo build --release --offline", cwd=SIM)
    assert rc == 0, o[-3000:]

def main():
    flt = sys.argv[1] if len(sys.argv) > 1 else ""
    scale = os.environ.get("MX_SCALE", "0.25")
    setup()
    rows = []
    mode = os.environ.get("MX_MODE", "mutants")
    for name, f, old, new, expect in (EQ if mode == "equiv" else M):
        if flt and flt not in name: continue
        path = f"{REPO}/{f}"
        src = open(path).read()
        if old not in src:
            rows.append({"mutant": name, "error": "pattern not found"}); print(name, "PATTERN NOT FOUND"); continue
        open(path, "w").write(src.replace(old, new, 1))
        row = {"mutant": name, "file": f, "expected": expect}
        try:
            rc1, o1 = sh("cargo test --offline --no-fail-fast", cwd=REPO)
            ok1 = rc1 == 0
            rc2, o2 = sh("cargo test --offline --no-fail-fast --features serde,rayon", cwd=REPO)
            ok2 = rc2 == 0
            row["baseline_default_passes"] = ok1; row["baseline_serde_rayon_passes"] = ok2
            rc, o = sh("cargo build --release --offline 2>&1 | tail -5", cwd=SIM)
            if "Finished" not in o:
                row["harness_build"] = "failed"; rows.append(row); print(name, "HARNESS BUILD FAILED", o[-500:]); continue
            caught = {}
            for p in PROPS:
                t0 = time.time()
                rc, o = sh(f"{SIM}/target/release/avsim --property {p} --tier quick --scale {scale}")
                cls = re.findall(r"violation class=(\S+)", o)
                caught[p] = {"exit": rc, "classes": cls[:4], "s": round(time.time() - t0, 1)}
            row["checks"] = caught
            row["caught_by"] = [p for p in PROPS if caught[p]["exit"] == 1]
            row["harness_errors"] = [p for p in PROPS if caught[p]["exit"] not in (0, 1)]
            row["expected_caught"] = all(p in row["caught_by"] for p in expect)
            print(f"{name:40s} baseline={ok1}/{ok2} caught_by={row['caught_by']} expected={expect} harness_err={row['harness_errors']}", flush=True)
        finally:
            open(path, "w").write(src)
        rows.append(row)
    os.makedirs("/verif/seeded", exist_ok=True)
    outp = "/verif/seeded/equivalent-matrix.json" if mode == "equiv" else "/verif/seeded/own-matrix.json"
    if flt and os.path.exists(outp):
        # a filtered run replaces / adds its rows in the existing matrix
        old = json.load(open(outp)); names = {r["mutant"] for r in rows}
        rows = [r for r in old["rows"] if r["mutant"] not in names] + rows
    json.dump({"scale": scale, "rows": rows}, open("/verif/seeded/equivalent-matrix.json" if mode == "equiv" else "/verif/seeded/own-matrix.json", "w"), indent=1)
    sh(f"git -C /repo worktree remove --force {REPO}")
    shutil.rmtree(MX, ignore_errors=True)

main()
