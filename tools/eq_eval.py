#!/usr/bin/env python3
"""False-alarm evaluation: apply each semantics-preserving patch /tmp/eq-<area>/patch<k>.diff in a scratch
worktree, require the crate's suite to pass (default and serde,rayon), then run EVERY check at the full quick
budget against it in a scratch copy of the harness. Expectation: no check fires. Appends rows to
seeded/equivalent-agents.json and copies the patches to seeded/equivalent/<area>-<k>/."""
import glob, json, os, re, shutil, subprocess, sys, time
EQ = os.environ.get("EQH", "/tmp/eqh")
PROPS = "C02 C05 C06 C08 C09 C11 C13 C14 C15 C17 C18 C19 C20".split()
ENV = dict(os.environ, CARGO_NET_OFFLINE="true", VERIF_DIR=f"{EQ}/out")
def sh(cmd, cwd=None):
    p = subprocess.run(cmd, shell=True, cwd=cwd, env=ENV, stdout=subprocess.PIPE, stderr=subprocess.STDOUT, text=True)
    return p.returncode, p.stdout
shutil.rmtree(EQ, ignore_errors=True); os.makedirs(f"{EQ}/out/evidence"); os.makedirs(f"{EQ}/out/replays")
sh("git -C /repo worktree prune")
rc, o = sh(f"git -C /repo worktree add -q --detach {EQ}/repo HEAD"); assert rc == 0, o
shutil.copytree("/verif/sim", f"{EQ}/sim", ignore=shutil.ignore_patterns("target", "target-*"))
t = open(f"{EQ}/sim/Cargo.toml").read().replace('path = "/repo"', f'path = "{EQ}/repo"'); open(f"{EQ}/sim/Cargo.toml", "w").write(t)
shutil.copy("/verif/known_findings.json", f"{EQ}/out")
areas = sys.argv[1:] or ["moments", "quantile", "histogram", "pairs", "minmaxmacros"]
outp = "/verif/seeded/equivalent-agents.json"
rows = json.load(open(outp))["rows"] if os.path.exists(outp) else []
for a in areas:
    for k in "1234":
        p = f"/tmp/eq-{a}/patch{k}.diff"
        if not os.path.exists(p): continue
        row = {"id": f"{a}-{k}"}
        rc, o = sh(f"git apply {p}", cwd=f"{EQ}/repo")
        if rc != 0:
            row["error"] = "patch does not apply: " + o[-300:]; rows.append(row); continue
        try:
            rc1, _ = sh("cargo test --offline --no-fail-fast", cwd=f"{EQ}/repo")
            rc2, _ = sh("cargo test --offline --no-fail-fast --features serde,rayon", cwd=f"{EQ}/repo")
            row["suite_default"] = rc1 == 0; row["suite_serde_rayon"] = rc2 == 0
            rc, o = sh("cargo build --release --offline 2>&1 | tail -3", cwd=f"{EQ}/sim")
            if "Finished" not in o:
                row["harness_build"] = o[-800:]; rows.append(row); continue
            fired = {}
            for pr in PROPS:
                rc, o = sh(f"{EQ}/sim/target/release/avsim --property {pr} --tier quick")
                if rc != 0:
                    fired[pr] = {"exit": rc, "classes": re.findall(r"violation class=(\S+)", o)[:3], "detail": (re.findall(r"violation class=\S+ \(\d+ runs\) (.*)", o) or [o[-300:]])[0][:400]}
            row["alarms"] = fired
            print(a, k, "suite", rc1 == 0, rc2 == 0, "alarms", {p: v["classes"] for p, v in fired.items()}, flush=True)
        finally:
            sh("git checkout -q -- .", cwd=f"{EQ}/repo")
        d = f"/verif/seeded/equivalent/{a}-{k}"; os.makedirs(d, exist_ok=True)
        shutil.copy(p, f"{d}/patch.diff")
        n = f"/tmp/eq-{a}/notes{k}.md"
        if os.path.exists(n): shutil.copy(n, f"{d}/notes.md")
        rows = json.load(open(outp))["rows"] if os.path.exists(outp) else []  # other areas may run side by side
        row["harness"] = subprocess.run("git -C /verif rev-parse --short HEAD", shell=True, capture_output=True, text=True).stdout.strip()
        rows = [r for r in rows if r["id"] != row["id"]] + [row]
        json.dump({"rows": rows}, open(outp, "w"), indent=1)
sh(f"git -C /repo worktree remove --force {EQ}/repo"); shutil.rmtree(EQ, ignore_errors=True)
