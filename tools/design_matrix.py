#!/usr/bin/env python3
"""Print the markdown tables of DESIGN.md section 7 from seeded/*/meta.json and seeded/own-matrix.json."""
import glob, json, os, re
rows = []
for f in sorted(glob.glob("/verif/seeded/C*-*/meta.json")):
    m = json.load(open(f))
    notes = ""
    p = os.path.dirname(f) + "/notes.md"
    if os.path.exists(p):
        txt = open(p).read()
        lines = [l.strip("# ").strip() for l in txt.splitlines() if l.strip()]
        notes = lines[0][:140] if lines else ""
    t = m["on_repo_target_check"]
    others = ", ".join(m.get("other_checks_that_catch_it_scratch_scale_0_3", []))
    cls = ", ".join(f"`{c}`" for c in t["violation_classes"][:2])
    ok = "caught" if m["caught_by_target_check"] else "**NOT CAUGHT**"
    first = m.get("caught_at_first_evaluation_before_strengthening")
    if first is False and m["caught_by_target_check"]:
        ok += " (missed at first evaluation, caught after the strengthening of §11)"
    if m.get("note"):
        ok += " - " + m["note"]
    tgt = "" if m.get("written_for_property", m["breaks_property"]) == m["breaks_property"] else f" (run against {m['breaks_property']})"
    rows.append(f"| {m['id']}{tgt} | {notes} | {ok}: {cls} | {others} |")
print("| seeded change | what it is (first line of the author's notes) | target check `./check <id> quick` on /repo + patch | other checks that also catch it |")
print("|---|---|---|---|")
print("\n".join(rows))
p = "/verif/seeded/own-matrix.json"
if os.path.exists(p):
    mx = json.load(open(p))
    print()
    print("| own mutant | crate suite (default / serde,rayon) | caught by | expected |")
    print("|---|---|---|---|")
    for r in mx["rows"]:
        if "error" in r:
            print(f"| {r['mutant']} | — | pattern not found | |"); continue
        b = f"{'pass' if r.get('baseline_default_passes') else 'FAIL'} / {'pass' if r.get('baseline_serde_rayon_passes') else 'FAIL'}"
        exp = ", ".join(r["expected"])
        ok = "" if r.get("expected_caught") else " **(expected check missed it)**"
        herr = f" harness errors: {r['harness_errors']}" if r.get("harness_errors") else ""
        print(f"| `{r['mutant']}` ({r['file']}) | {b} | {', '.join(r.get('caught_by', []))}{ok}{herr} | {exp} |")
