#!/usr/bin/env python3
"""Re-run every kept seeded change against the CURRENT harness in scratch copies (a worktree of
/repo + a copy of /verif/sim pointing at it): apply seeded/<id>/patch.diff, run the target
property's quick check at full budget, revert. Writes seeded/recheck.json. Does not touch /repo."""
import glob, json, os, re, shutil, subprocess, sys, time
RC = "/tmp/rck"
ENV = dict(os.environ, CARGO_NET_OFFLINE="true", VERIF_DIR=f"{RC}/out")
def sh(cmd, cwd=None):
    p = subprocess.run(cmd, shell=True, cwd=cwd, env=ENV, stdout=subprocess.PIPE, stderr=subprocess.STDOUT, text=True)
    return p.returncode, p.stdout
shutil.rmtree(RC, ignore_errors=True); os.makedirs(f"{RC}/out/evidence"); os.makedirs(f"{RC}/out/replays")
sh("git -C /repo worktree prune")
rc, o = sh(f"git -C /repo worktree add -q --detach {RC}/repo HEAD"); assert rc == 0, o
shutil.copytree("/verif/sim", f"{RC}/sim", ignore=shutil.ignore_patterns("target", "target-*"))
t = open(f"{RC}/sim/Cargo.toml").read().replace('path = "/repo"', f'path = "{RC}/repo"'); open(f"{RC}/sim/Cargo.toml", "w").write(t)
shutil.copy("/verif/known_findings.json", f"{RC}/out")
head = sh("git -C /verif rev-parse --short HEAD")[1].strip()
rows = []
flt = sys.argv[1] if len(sys.argv) > 1 else ""
for f in sorted(glob.glob("/verif/seeded/C*-*/meta.json")):
    m = json.load(open(f)); d = os.path.dirname(f)
    if flt and flt not in m["id"]: continue
    prop = m["breaks_property"]
    rc, o = sh(f"git apply {d}/patch.diff", cwd=f"{RC}/repo")
    if rc != 0:
        rows.append({"id": m["id"], "error": "patch does not apply"}); continue
    try:
        rc, o = sh("cargo build --release --offline 2>&1 | tail -3", cwd=f"{RC}/sim")
        extra = ""
        if prop in ("C06", "C13"):
            pass  # stable binary only here; the const-generic twin is covered by ./check on /repo
        t0 = time.time()
        rc, o = sh(f"{RC}/sim/target/release/avsim --property {prop} --tier quick")
        rows.append({"id": m["id"], "property": prop, "exit": rc, "classes": re.findall(r"violation class=(\S+)", o)[:3], "s": round(time.time() - t0, 1)})
        print(m["id"], prop, "exit", rc, flush=True)
    finally:
        sh("git checkout -q -- .", cwd=f"{RC}/repo")
json.dump({"verif_commit": head, "rows": rows, "all_caught": all(r.get("exit") == 1 for r in rows)}, open("/verif/seeded/recheck.json", "w"), indent=1)
sh(f"git -C /repo worktree remove --force {RC}/repo"); shutil.rmtree(RC, ignore_errors=True)
print("all caught:", all(r.get("exit") == 1 for r in rows), len(rows))
