#!/usr/bin/env python3
"""Re-run every kept seeded change against the CURRENT harness in scratch copies (a worktree of
/repo + a copy of /verif/sim pointing at it): apply seeded/<id>/patch.diff, run the target
property's quick check at full budget, revert. Writes seeded/recheck.json. Does not touch /repo."""
import glob, json, os, re, shutil, subprocess, sys, time
# tools/seed_recheck.py [filter]            one scratch copy, sequential
# tools/seed_recheck.py --shards N          N scratch copies side by side (rows merged at the end)
if len(sys.argv) > 2 and sys.argv[1] == "--shards":
    n = int(sys.argv[2])
    ps = [subprocess.Popen([sys.executable, __file__, "--shard", str(i), str(n)]) for i in range(n)]
    for p in ps: p.wait()
    rows = []
    for i in range(n):
        rows += json.load(open(f"/tmp/rck_rows{i}.json")); os.remove(f"/tmp/rck_rows{i}.json")
    head = subprocess.run("git -C /verif rev-parse --short HEAD", shell=True, capture_output=True, text=True).stdout.strip()
    if os.environ.get("RCK_FILTER") and os.path.exists("/verif/seeded/recheck.json"):
        # partial re-run: the rows of this run replace the rows with the same id; every row says
        # which harness state produced it
        for r in rows: r["harness"] = head + " + working tree of " + time.strftime("%Y-%m-%d %H:%M")
        old = json.load(open("/verif/seeded/recheck.json")); ids = {r["id"] for r in rows}
        for r in old["rows"]: r.setdefault("harness", old.get("verif_commit"))
        rows = [r for r in old["rows"] if r["id"] not in ids] + rows
    rows.sort(key=lambda r: r["id"])
    json.dump({"verif_commit": head, "rows": rows, "all_caught": all(r.get("exit") == 1 for r in rows)}, open("/verif/seeded/recheck.json", "w"), indent=1)
    print("all caught:", all(r.get("exit") == 1 for r in rows), len(rows))
    print("missed:", [r["id"] for r in rows if r.get("exit") != 1])
    sys.exit(0)
SHARD = None
if len(sys.argv) > 3 and sys.argv[1] == "--shard":
    SHARD = (int(sys.argv[2]), int(sys.argv[3])); sys.argv = sys.argv[:1]
RC = "/tmp/rck" + (str(SHARD[0]) if SHARD else "")
ENV = dict(os.environ, CARGO_NET_OFFLINE="true", VERIF_DIR=f"{RC}/out")
def sh(cmd, cwd=None):
    p = subprocess.run(cmd, shell=True, cwd=cwd, env=ENV, stdout=subprocess.PIPE, stderr=subprocess.STDOUT, text=True)
    return p.returncode, p.stdout
shutil.rmtree(RC, ignore_errors=True); os.makedirs(f"{RC}/out/evidence"); os.makedirs(f"{RC}/out/replays")
sh("git -C /repo worktree prune")
rc, o = sh(f"git -C /repo worktree add -q --detach {RC}/repo HEAD"); assert rc == 0, o
shutil.copytree("/verif/sim", f"{RC}/sim", ignore=shutil.ignore_patterns("target", "target-*"))
t = open(f"{RC}/sim/Cargo.toml").read().replace('path = "/repo"', f'path = "{RC}/repo"'); open(f"{RC}/sim/Cargo.toml", "w").write(t)
shutil.copy("/verif/known_findings.json", f"{RC}/out")
# a scratch copy of the driver as well: changes hidden behind a build configuration are only
# seen by the other binaries that ./check builds and runs
shutil.copy("/verif/check", f"{RC}/check"); shutil.copy("/verif/known_findings.json", RC)
os.makedirs(f"{RC}/evidence", exist_ok=True); os.makedirs(f"{RC}/replays", exist_ok=True)
head = sh("git -C /verif rev-parse --short HEAD")[1].strip()
rows = []
flt = sys.argv[1] if len(sys.argv) > 1 else ""
for fi, f in enumerate(sorted(glob.glob("/verif/seeded/C*-*/meta.json"))):
    if SHARD and fi % SHARD[1] != SHARD[0]: continue
    m = json.load(open(f)); d = os.path.dirname(f)
    flt_ = os.environ.get("RCK_FILTER")
    if flt_ == "ROUND1":
        if "-r" in m["id"]: continue
    elif flt_ and flt_ not in m["id"]: continue
    if flt and flt not in m["id"]: continue
    prop = m["breaks_property"]
    rc, o = sh(f"git apply {d}/patch.diff", cwd=f"{RC}/repo")
    if rc != 0:
        rows.append({"id": m["id"], "error": "patch does not apply"}); continue
    try:
        rc, o = sh("cargo build --release --offline 2>&1 | tail -3", cwd=f"{RC}/sim")
        extra = ""
        if prop in ("C06", "C13"):
            pass  # stable binary only here; the const-generic twin is covered by ./check on /repo
        t0 = time.time()
        rc, o = sh(f"{RC}/sim/target/release/avsim --property {prop} --tier quick")
        how = "stable binary"
        if rc == 0:
            # not seen by the default build: the whole ./check (std / debug-assertions and nightly binaries too)
            rc, o = sh(f"{RC}/check {prop} quick"); how = "./check (all build configurations)"
        rows.append({"id": m["id"], "property": prop, "exit": rc, "classes": re.findall(r"violation class=(\S+)", o)[:3], "s": round(time.time() - t0, 1), "run": how})
        print(m["id"], prop, "exit", rc, flush=True)
    finally:
        sh("git checkout -q -- .", cwd=f"{RC}/repo")
if SHARD:
    json.dump(rows, open(f"/tmp/rck_rows{SHARD[0]}.json", "w"))
else:
    json.dump({"verif_commit": head, "rows": rows, "all_caught": all(r.get("exit") == 1 for r in rows)}, open("/verif/seeded/recheck.json", "w"), indent=1)
sh(f"git -C /repo worktree remove --force {RC}/repo"); shutil.rmtree(RC, ignore_errors=True)
print("all caught:", all(r.get("exit") == 1 for r in rows), len(rows))
