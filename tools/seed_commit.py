#!/usr/bin/env python3
"""Official confirmation of the kept seeded changes: for each /tmp/mut-<ID>/patch<k>.diff apply it to
/repo itself (git apply), run the target property's quick check at full budget, undo (git checkout -- .),
and write /verif/seeded/<ID>-<k>/{patch.diff,demo.rs,notes.md,meta.json}. Scratch-worktree results
(demo passes clean / fails patched, crate suite passes) come from tools/seed_eval.py runs (jsonl)."""
import glob, json, os, re, shutil, subprocess, sys, time
ENV = dict(os.environ, CARGO_NET_OFFLINE="true")
def sh(cmd, cwd=None):
    p = subprocess.run(cmd, shell=True, cwd=cwd, env=ENV, stdout=subprocess.PIPE, stderr=subprocess.STDOUT, text=True)
    return p.returncode, p.stdout
scratch = {}
for f in sorted(glob.glob({"1": "/tmp/seed_eval.*.jsonl", "2": "/tmp/seed2_eval.*.jsonl", "3": "/tmp/seed3_eval.*.jsonl", "4": "/tmp/seed4_eval.*.jsonl", "5": "/tmp/seed5_eval.*.jsonl", "6": "/tmp/seed6_eval.*.jsonl"}[os.environ.get("SEED_ROUND", "1")])):
    for l in open(f):
        l = l.strip()
        if l.startswith("{"):
            r = json.loads(l); key = (r["mutdir"][-3:], str(r["k"]))
            old = scratch.get(key)
            if old and "checks" in old:
                # keep flags from the newest, merge check tables (newest wins per property)
                merged = dict(old["checks"]); merged.update(r.get("checks", {})); r["checks"] = merged
            scratch[key] = r
assert sh("git -C /repo status --porcelain")[1].strip() == "", "/repo not clean"
ROUND = os.environ.get("SEED_ROUND", "1")
MUT = {"1": "/tmp/mut-", "2": "/tmp/mut2-", "3": "/tmp/mut3-", "4": "/tmp/mut4-", "5": "/tmp/mut5-", "6": "/tmp/mut6-"}[ROUND]
TAG = {"1": "", "2": "r2-", "3": "r3-", "4": "r4-", "5": "r5-", "6": "r6-"}[ROUND]
if os.environ.get("SEED_RETARGET"):  # e.g. "C11:3=C14,C02:1=REJECT"
    pass
# changes whose trigger lies outside the domain of the property they were written for
RETARGET = {"2": {("C11", "3"): "C14"}, "3": {("C17", "2"): "C18"}}.get(ROUND, {})
REJECT = {"2": {("C02", "1")}, "3": {("C11", "1")}}.get(ROUND, set())
for item in filter(None, os.environ.get("SEED_RETARGET", "").split(",")):
    lhs, rhs = item.split("="); pid_, k_ = lhs.split(":")
    if rhs == "REJECT": REJECT = set(REJECT) | {(pid_, k_)}
    else: RETARGET = dict(RETARGET); RETARGET[(pid_, k_)] = rhs
ids = sys.argv[1:] or "C02 C05 C06 C08 C09 C11 C13 C14 C15 C17 C18 C19 C20".split()
for pid in ids:
    for k in "123":
        d = f"{MUT}{pid}"
        if not os.path.exists(f"{d}/patch{k}.diff"): continue
        if (pid, k) in REJECT: continue
        target = RETARGET.get((pid, k), pid)
        out = f"/verif/seeded/{pid}-{TAG}{k}"; os.makedirs(out, exist_ok=True)
        shutil.copy(f"{d}/patch{k}.diff", f"{out}/patch.diff"); shutil.copy(f"{d}/demo{k}.rs", f"{out}/demo.rs")
        if os.path.exists(f"{d}/notes{k}.md"): shutil.copy(f"{d}/notes{k}.md", f"{out}/notes.md")
        if os.path.exists(f"{d}/demo{k}.cmd"): shutil.copy(f"{d}/demo{k}.cmd", f"{out}/demo.cmd")
        rc, o = sh(f"git -C /repo apply {out}/patch.diff"); assert rc == 0, o
        t0 = time.time()
        try:
            rc, o = sh(f"/verif/check {target} quick")
        finally:
            sh("git -C /repo checkout -- .")
        classes = re.findall(r"violation class=(\S+)", o)
        replays = re.findall(r"VIOLATION property=\S+ replay=(\S+)", o)
        details = re.findall(r"violation class=\S+ \(\d+ runs\) (.*)", o)
        s = scratch.get((pid, k), {})
        notes = open(f"{out}/notes.md").read() if os.path.exists(f"{out}/notes.md") else ""
        meta = {
            "id": f"{pid}-{TAG}{k}", "breaks_property": target, "written_for_property": pid, "round": int(ROUND),
            "source": "independent sub-agent given only the property text and its own scratch worktree" + ("" if target == pid else f"; written for {pid}, but its trigger lies outside {pid}'s input domain - it breaks {target}"),
            "needs_to_manifest": notes.strip().split("\n\n")[0][:1200],
            "confirmed_in_scratch_worktree": {x: s.get(x) for x in ["demo_passes_clean", "patch_applies", "suite_passes_default", "suite_passes_serde_rayon", "demo_fails_patched"]},
            "demo_features": s.get("demo_features", ""),
            "what_was_run": [f"tools/seed_eval.py {d} {k} (scratch worktree + scratch copy of the harness)", f"git -C /repo apply seeded/{pid}-{TAG}{k}/patch.diff && ./check {target} quick; git -C /repo checkout -- ."],
            "on_repo_target_check": {"cmd": f"./check {target} quick", "exit": rc, "violation_classes": classes, "first_detail": (details[0][:500] if details else ""), "wall_s": round(time.time() - t0, 1)},
            "caught_by_target_check": rc == 1,
            "other_checks_that_catch_it_scratch_scale_0_3": sorted(p for p, c in s.get("checks", {}).items() if c.get("exit") == 1 and p != target),
            "caught_at_first_evaluation_before_strengthening": (target in [p for p, c in s.get("checks", {}).items() if c.get("exit") == 1]) if ROUND != "1" else None,
        }
        json.dump(meta, open(f"{out}/meta.json", "w"), indent=1)
        print(pid, TAG + k, "->", target, "exit", rc, classes[:3], flush=True)
        for r in replays:
            # keep the minimised replay of the first class as an example of what the check reports
            if os.path.exists(r) and not os.path.exists(f"{out}/replay_example.json") and os.path.getsize(r) < 200_000:
                shutil.copy(r, f"{out}/replay_example.json")
assert sh("git -C /repo status --porcelain")[1].strip() == "", "/repo not clean at the end"
