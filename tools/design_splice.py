#!/usr/bin/env python3
"""Replace the two generated tables of DESIGN.md section 7 by the current output of tools/design_matrix.py."""
import subprocess
out = subprocess.run(["python3", "/verif/tools/design_matrix.py"], capture_output=True, text=True).stdout.rstrip("\n").split("\n")
k = [i for i, l in enumerate(out) if l.startswith("| own mutant |")][0]
t1 = [l for l in out[:k] if l.startswith("|")]; t2 = [l for l in out[k:] if l.startswith("|")]
L = open("/verif/DESIGN.md").read().split("\n")
def table(L, head):
    a = [i for i, l in enumerate(L) if l.startswith(head)][0]; e = a
    while e < len(L) and L[e].startswith("|"): e += 1
    return a, e
a, e = table(L, "| seeded change |"); L[a:e] = t1
a, e = table(L, "| own mutant |"); L[a:e] = t2
open("/verif/DESIGN.md", "w").write("\n".join(L))
print(len(t1) - 2, "seeded rows,", len(t2) - 2, "own mutants")
