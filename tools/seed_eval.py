#!/usr/bin/env python3
"""Evaluate one candidate seeded change from a sub-agent.
  tools/seed_eval.py <mutdir> <k> [--props C02,C11] [--scale 0.3] [--on-repo]
mutdir holds patch<k>.diff, demo<k>.rs, notes<k>.md.
Steps: (1) scratch worktree: demo passes on the clean tree; with the patch the crate's own
suite (default and serde,rayon features) still passes and the demo fails. (2) the checks are
run against the patched tree: by default in a scratch copy of the harness pointing at a scratch
worktree (/tmp/evh), with --on-repo against /repo itself (git apply, run, git checkout -- .).
Prints a JSON summary on the last line."""
import json, os, re, shutil, subprocess, sys, time

PROPS = "C02 C05 C06 C08 C09 C11 C13 C14 C15 C17 C18 C19 C20".split()
EVH = os.environ.get("EVH", "/tmp/evh")
ENVB = dict(os.environ, CARGO_NET_OFFLINE="true")

def sh(cmd, cwd=None, env=None, timeout=7200):
    p = subprocess.run(cmd, shell=True, cwd=cwd, env=env or ENVB, stdout=subprocess.PIPE, stderr=subprocess.STDOUT, text=True, timeout=timeout)
    return p.returncode, p.stdout

def suite_ok(out):
    return "test result: ok" in out and "FAILED" not in out and "could not compile" not in out and "error[" not in out

def ensure_evh():
    if os.path.isdir(f"{EVH}/sim") and os.path.isdir(f"{EVH}/repo"):
        sh(f"git -C {EVH}/repo checkout -q -- . && git -C {EVH}/repo clean -fdq -e target")
        # refresh harness sources
        sh(f"rsync -a --delete --exclude target --exclude 'target-*' --exclude Cargo.toml /verif/sim/ {EVH}/sim/")
        t = open("/verif/sim/Cargo.toml").read().replace('path = "/repo"', f'path = "{EVH}/repo"')
        open(f"{EVH}/sim/Cargo.toml", "w").write(t)
        shutil.copy("/verif/check", f"{EVH}/check")
        return
    shutil.rmtree(EVH, ignore_errors=True)
    os.makedirs(EVH)
    sh("git -C /repo worktree prune")
    rc, o = sh(f"git -C /repo worktree add -q --detach {EVH}/repo HEAD"); assert rc == 0, o
    shutil.copytree("/verif/sim", f"{EVH}/sim", ignore=shutil.ignore_patterns("target", "target-*"))
    shutil.copy("/verif/check", f"{EVH}/check")
    t = open(f"{EVH}/sim/Cargo.toml").read().replace('path = "/repo"', f'path = "{EVH}/repo"')
    open(f"{EVH}/sim/Cargo.toml", "w").write(t)

def main():
    mutdir, k = sys.argv[1], sys.argv[2]
    props = PROPS
    scale = "0.3"
    on_repo = "--on-repo" in sys.argv
    for i, a in enumerate(sys.argv):
        if a == "--props": props = [] if sys.argv[i + 1] == "none" else sys.argv[i + 1].split(",")
        if a == "--scale": scale = sys.argv[i + 1]
    patch = os.path.abspath(f"{mutdir}/patch{k}.diff"); demo = os.path.abspath(f"{mutdir}/demo{k}.rs")
    res = {"mutdir": mutdir, "k": k}
    ensure_evh()
    wt = f"{EVH}/repo"
    feats = ""
    head = open(demo).read()[:1500]
    if re.search(r"features?.*(serde|rayon)", head): feats = "--features serde,rayon"
    # demo<k>.cmd: the cargo arguments the demonstration needs (build configuration), e.g. "--release" or "+nightly --features nightly"
    tool = ""
    cmdf = f"{mutdir}/demo{k}.cmd"
    if os.path.exists(cmdf):
        feats = open(cmdf).read().strip()
        if feats.startswith("+"):
            tool, _, feats = feats.partition(" ")
    res["demo_features"] = (tool + " " + feats).strip()
    # clean tree: demo passes
    shutil.copy(demo, f"{wt}/tests/demo_seed.rs")
    rc, o = sh(f"cargo {tool} test --offline {feats} --test demo_seed 2>&1 | tail -15", cwd=wt)
    res["demo_passes_clean"] = suite_ok(o)
    os.remove(f"{wt}/tests/demo_seed.rs")
    rc, o = sh(f"git apply {patch}", cwd=wt)
    res["patch_applies"] = rc == 0
    if rc != 0:
        print(json.dumps(res)); return
    rc, o1 = sh("cargo test --offline 2>&1 | grep -E 'test result|FAILED|error' | head", cwd=wt)
    rc, o2 = sh("cargo test --offline --features serde,rayon 2>&1 | grep -E 'test result|FAILED|error' | head", cwd=wt)
    res["suite_passes_default"] = suite_ok(o1); res["suite_passes_serde_rayon"] = suite_ok(o2)
    shutil.copy(demo, f"{wt}/tests/demo_seed.rs")
    rc, o = sh(f"cargo {tool} test --offline {feats} --test demo_seed 2>&1 | tail -15", cwd=wt)
    res["demo_fails_patched"] = ("FAILED" in o or "panicked" in o) and "could not compile" not in o
    os.remove(f"{wt}/tests/demo_seed.rs")
    # checks
    caught = {}
    if on_repo:
        rc, o = sh(f"git -C /repo apply {patch}"); assert rc == 0, o
        try:
            for p in props:
                t0 = time.time()
                rc, o = sh(f"/verif/check {p} quick", env=dict(ENVB))
                caught[p] = {"exit": rc, "classes": re.findall(r"violation class=(\S+)", o)[:4], "s": round(time.time() - t0, 1)}
        finally:
            sh("git -C /repo checkout -- .")
    else:
        out = f"{EVH}/out"; shutil.rmtree(out, ignore_errors=True); os.makedirs(out + "/evidence"); os.makedirs(out + "/replays")
        shutil.copy("/verif/known_findings.json", out)
        env = dict(ENVB, VERIF_SCALE=scale)
        for d in ("evidence", "replays"):
            shutil.rmtree(f"{EVH}/{d}", ignore_errors=True); os.makedirs(f"{EVH}/{d}")
        shutil.copy("/verif/known_findings.json", EVH)
        if True:
            for p in props:
                t0 = time.time()
                rc, o = sh(f"{EVH}/check {p} quick", env=env)
                caught[p] = {"exit": rc, "classes": re.findall(r"violation class=(\S+)", o)[:4], "s": round(time.time() - t0, 1)}
                if rc == 2: caught[p]["err"] = o[-400:]
    sh(f"git -C {wt} checkout -q -- .")
    res["checks"] = caught
    res["caught_by"] = [p for p in caught if caught[p]["exit"] == 1]
    res["harness_errors"] = [p for p in caught if caught[p]["exit"] not in (0, 1)]
    print(json.dumps(res))

main()
