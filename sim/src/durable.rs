//! D: durable stream node. One node consumes an operation stream into one estimator
//! next to an in-memory checkpoint store; faults: crash_restart (latest checkpoint,
//! suffix re-fed), stale_restore (older checkpoint), migrate (serde round trips),
//! restored merge operands. A twin consumes the same stream and never sees a fault.
//! Decides C18 (all types), C05 and C15 (Quantile).
#![allow(dead_code)]

use crate::framework::{last_panic_location, panic_message, Failure, RunInfo, Scenario, Stats, Tier, Viol};
use crate::htypes::{self, Hist};
use crate::p2model::{self, QState};
use crate::rng::Rng;
use crate::types::{same_bits, Est, Item};
use average::{Estimate, Quantile};
use serde::{Deserialize, Serialize};
use serde_json::Value;
use std::panic::{catch_unwind, AssertUnwindSafe};

#[derive(Clone, Debug, Default)]
pub struct DParam {
    /// Quantile only: build with `Default::default()` (which must be `new(0.5)`)
    pub via_default: bool,
    pub p: f64,
    pub hist_len: usize,
    pub edges: Vec<f64>,
}

pub trait Dur: Sized {
    type Item: Item;
    fn type_name() -> String;
    fn make(param: &DParam) -> Result<Self, String>;
    fn feed(&mut self, x: Self::Item);
    fn can_merge() -> bool;
    fn join(&mut self, o: &Self);
    fn observe(&self) -> Vec<(String, f64)>;
    fn count(&self) -> Option<u64>;
    fn dbg(&self) -> String;
    fn to_json(&self) -> String;
    fn to_blob(&self, m: u8) -> String;
    fn from_json(&self, s: &str) -> Result<Self, String>;
    fn dup(&self) -> Self;
    fn as_quantile(&self) -> Option<&Quantile> {
        None
    }
}

impl<E: Est> Dur for E {
    type Item = E::Item;
    fn type_name() -> String {
        E::NAME.to_string()
    }
    fn make(_: &DParam) -> Result<Self, String> {
        Ok(E::fresh())
    }
    fn feed(&mut self, x: E::Item) {
        self.push(x)
    }
    fn can_merge() -> bool {
        true
    }
    fn join(&mut self, o: &Self) {
        self.absorb(o)
    }
    fn observe(&self) -> Vec<(String, f64)> {
        let mut v: Vec<(String, f64)> = self.stats_vec().into_iter().map(|(s, x)| (s.name(), x)).collect();
        if let Some((e, _)) = self.headline() {
            v.push(("estimate".into(), e));
        }
        v
    }
    fn count(&self) -> Option<u64> {
        Est::count(self)
    }
    fn dbg(&self) -> String {
        // Min/Max: the sign of a zero extreme is unspecified (see types::same_stat)
        if E::ORDER == 0 {
            return self.debug().replace("-0.0", "0.0");
        }
        self.debug()
    }
    fn to_json(&self) -> String {
        Est::to_json(self)
    }
    fn to_blob(&self, m: u8) -> String {
        Est::to_blob(self, m)
    }
    fn from_json(&self, s: &str) -> Result<Self, String> {
        <E as Est>::from_json(s)
    }
    fn dup(&self) -> Self {
        self.clone()
    }
}

pub struct QDur(pub Quantile);
impl Dur for QDur {
    type Item = f64;
    fn type_name() -> String {
        "Quantile".into()
    }
    fn make(p: &DParam) -> Result<Self, String> {
        if p.via_default && p.p == 0.5 {
            return Ok(QDur(Quantile::default()));
        }
        Ok(QDur(Quantile::new(p.p)))
    }
    fn feed(&mut self, x: f64) {
        self.0.add(x)
    }
    fn can_merge() -> bool {
        false
    }
    fn join(&mut self, _: &Self) {}
    fn observe(&self) -> Vec<(String, f64)> {
        vec![
            ("p".into(), self.0.p()),
            ("quantile".into(), self.0.quantile()),
            ("estimate".into(), self.0.estimate()),
            ("len".into(), self.0.len() as f64),
            ("is_empty".into(), self.0.is_empty() as u8 as f64),
        ]
    }
    fn count(&self) -> Option<u64> {
        Some(self.0.len())
    }
    fn dbg(&self) -> String {
        format!("{:?}", self.0)
    }
    fn to_json(&self) -> String {
        serde_json::to_string(&self.0).expect("serialize")
    }
    fn to_blob(&self, m: u8) -> String {
        crate::medium::encode(&self.0, m).unwrap_or_else(|_| self.to_json())
    }
    fn from_json(&self, s: &str) -> Result<Self, String> {
        crate::medium::decode(s).map(QDur)
    }
    fn dup(&self) -> Self {
        QDur(self.0.clone())
    }
    fn as_quantile(&self) -> Option<&Quantile> {
        Some(&self.0)
    }
}

pub struct HDur(pub Box<dyn Hist>);
impl Dur for HDur {
    type Item = f64;
    fn type_name() -> String {
        "Histogram".into()
    }
    fn make(p: &DParam) -> Result<Self, String> {
        htypes::from_ranges(p.hist_len, &p.edges).map(HDur).map_err(|e| format!("{:?}", e))
    }
    fn feed(&mut self, x: f64) {
        let _ = self.0.add(x);
    }
    fn can_merge() -> bool {
        true
    }
    fn join(&mut self, o: &Self) {
        self.0.merge_from(o.0.as_ref())
    }
    fn observe(&self) -> Vec<(String, f64)> {
        let mut v = vec![];
        for (i, b) in self.0.bins().iter().enumerate() {
            v.push((format!("bin{}", i), *b as f64));
        }
        for (i, r) in self.0.ranges().iter().enumerate() {
            v.push((format!("edge{}", i), *r));
        }
        for (i, x) in self.0.variances().iter().enumerate() {
            v.push((format!("variance{}", i), *x));
        }
        for (i, x) in self.0.normalized_bins().iter().enumerate() {
            v.push((format!("normalized{}", i), *x));
        }
        v
    }
    fn count(&self) -> Option<u64> {
        Some(self.0.bins().iter().sum())
    }
    fn dbg(&self) -> String {
        self.0.debug()
    }
    fn to_json(&self) -> String {
        self.0.to_json()
    }
    fn to_blob(&self, m: u8) -> String {
        self.0.to_blob(m)
    }
    fn from_json(&self, s: &str) -> Result<Self, String> {
        self.0.from_json_same(s).map(HDur)
    }
    fn dup(&self) -> Self {
        HDur(self.0.boxed_clone())
    }
}

#[derive(Serialize, Deserialize, Clone, Debug, PartialEq)]
pub enum DOp {
    Add(u64, u64),
    /// merge a side estimator built from `items`; `restored`: the side went through a
    /// serde round trip before being merged
    Merge { items: Vec<(u64, u64)>, restored: bool },
    Checkpoint,
    /// crash; restart from the latest checkpoint and re-consume the suffix
    Crash,
    /// crash; restart from an older checkpoint (`back` checkpoints before the latest)
    Stale { back: usize },
    /// serialise -> other node -> continue, `times` round trips
    Migrate { times: u8 },
}

#[derive(Serialize, Deserialize, Clone, Debug)]
pub struct DTrace {
    pub scenario: String,
    pub ty: String,
    #[serde(default)]
    pub via_default: bool,
    #[serde(default)]
    pub p: u64,
    #[serde(default)]
    pub hist_len: usize,
    #[serde(default)]
    pub edges: Vec<u64>,
    pub ops: Vec<DOp>,
    #[serde(default)]
    pub readable: Vec<String>,
}

#[derive(Clone, Copy, Debug, PartialEq, Eq)]
pub enum DProp {
    C18,
    C05,
    C15,
}

impl DProp {
    pub fn scen_name(&self) -> &'static str {
        match self {
            DProp::C18 => "D/C18",
            DProp::C05 => "D/C05",
            DProp::C15 => "D/C15",
        }
    }
}

pub struct DScenario {
    pub prop: DProp,
    /// enumerate all streams over a 4-letter alphabet of length 10 x 7 values of p
    pub enumerate: bool,
}

pub const TYPES: [&str; 17] = [
    "Mean", "Variance", "Skewness", "Kurtosis", "Moments4", "M4", "M5", "M6", "M8", "M10", "Min", "Max", "Quantile",
    "WeightedMean", "WeightedMeanWithError", "Covariance", "Histogram",
];

fn obs_diff(a: &[(String, f64)], b: &[(String, f64)]) -> Option<String> {
    if a.len() != b.len() {
        return Some(format!("{} vs {} statistics", a.len(), b.len()));
    }
    for (x, y) in a.iter().zip(b.iter()) {
        let zero_tie = (x.0 == "Min" || x.0 == "Max" || (x.0 == "estimate" && a.len() == 2)) && x.1 == 0.0 && y.1 == 0.0;
        if x.0 != y.0 || !(same_bits(x.1, y.1) || zero_tie) {
            return Some(format!("{} = {:e} (0x{:016x}) vs {:e} (0x{:016x})", x.0, x.1, x.1.to_bits(), y.1, y.1.to_bits()));
        }
    }
    None
}

struct Ckpt {
    pos: usize, // number of stream operations (Add/Merge) consumed
    json: String,
    /// what the storage medium holds (medium.rs)
    blob: String,
    obs: Vec<(String, f64)>,
    dbg: String,
}

struct QMon {
    p: f64,
    seen: Vec<f64>, // observations consumed so far (stream order)
}

fn is_stream(op: &DOp) -> bool {
    matches!(op, DOp::Add(..) | DOp::Merge { .. })
}

fn run_d<T: Dur>(prop: DProp, tr: &DTrace, st: &mut Stats) -> Result<(), Viol> {
    let name = T::type_name();
    let param = DParam {
        via_default: tr.via_default,
        p: f64::from_bits(tr.p),
        hist_len: tr.hist_len,
        edges: tr.edges.iter().map(|b| f64::from_bits(*b)).collect(),
    };
    let mk = |what: &str| -> Result<T, Viol> { T::make(&param).map_err(|e| Viol::new("harness", format!("cannot construct {}: {}", what, e))) };
    let mut node = mk("node")?;
    let mut twin = mk("twin")?;
    let mut ckpts: Vec<Ckpt> = vec![];
    let stream: Vec<&DOp> = tr.ops.iter().filter(|o| is_stream(o)).collect();
    let mut pos = 0usize; // stream operations consumed by node == by twin
    // Quantile monitors
    let is_q = node.as_quantile().is_some();
    let mut post_states: Vec<Option<QState>> = vec![]; // state after `pos` stream ops (Quantile, C05 chain)
    if is_q && prop == DProp::C05 {
        post_states.push(Some(p2model::state(node.as_quantile().unwrap()).map_err(|e| Viol::new("Quantile:state_unreadable", e))?));
    }
    let mut run_min = f64::INFINITY;
    let mut run_max = f64::NEG_INFINITY;
    let mut first5: Vec<f64> = vec![];

    // apply one stream op to an estimator; for the node of a Quantile run, step-check it
    let apply = |e: &mut T, op: &DOp, is_node: bool, stream_index: usize, st: &mut Stats, first5: &Vec<f64>| -> Result<(), Viol> {
        match op {
            DOp::Add(a, b) => {
                let x = <T::Item as Item>::from_bits2((*a, *b));
                if is_node && prop == DProp::C05 && e.as_quantile().is_some() {
                    let xv = f64::from_bits(*a);
                    let pre = p2model::state(e.as_quantile().unwrap()).map_err(|er| Viol::new("Quantile:state_unreadable", er))?;
                    e.feed(x);
                    let q = e.as_quantile().unwrap();
                    let post = p2model::state(q).map_err(|er| Viol::new("Quantile:state_unreadable", er))?;
                    let n_after = stream_index + 1;
                    if n_after == 5 {
                        let mut f5 = first5.clone();
                        f5.push(xv);
                        let want = p2model::initial_state(param.p, &f5);
                        if post != want {
                            return Err(Viol::new(
                                "Quantile:initial_markers",
                                format!("after the fifth observation the markers are {:?}, P-square prescribes {:?}", post, want),
                            ));
                        }
                    }
                    if n_after == 5 {
                        let est = q.quantile();
                        if est.to_bits() != post.q[2].to_bits() {
                            return Err(Viol::new(
                                "Quantile:estimate_not_middle_marker",
                                format!("observation #5: quantile() = {:e} but the middle marker height is {:e}", est, post.q[2]),
                            ));
                        }
                    }
                    if n_after > 5 {
                        st.oracle_evals += 1;
                        match p2model::check_step(&pre, xv, &post) {
                            Ok(info) => {
                                if info.new_min {
                                    st.bump("probe.new_minimum_after_init");
                                }
                                if info.new_max {
                                    st.bump("probe.new_maximum");
                                }
                                st.add("probe.parabolic_accepted", info.parabolic as u64);
                                st.add("probe.linear_fallback", info.linear as u64);
                                st.add("probe.marker_moved_down", info.moved_down as u64);
                                st.add("probe.marker_moved_up", info.moved_up as u64);
                                if info.tie_with_marker {
                                    st.bump("probe.tie_with_marker_height");
                                }
                                st.add("probe.ambiguous_branch_admitted", info.ambiguous as u64);
                                st.add("probe.parabolic_exact_tie_with_neighbour", info.exact_tie as u64);
                                st.add("probe.parabolic_exact_tie_strictness_mandatory", info.exact_tie_mandatory as u64);
                            }
                            Err((what, detail)) => {
                                return Err(Viol::new(format!("Quantile:p2_step:{}", what), format!("observation #{}: {}", n_after, detail)));
                            }
                        }
                        let est = q.quantile();
                        if est.to_bits() != post.q[2].to_bits() {
                            return Err(Viol::new(
                                "Quantile:estimate_not_middle_marker",
                                format!("observation #{}: quantile() = {:e} but the middle marker height is {:e}", n_after, est, post.q[2]),
                            ));
                        }
                    }
                } else {
                    e.feed(x);
                }
            }
            DOp::Merge { items, restored } => {
                if !T::can_merge() {
                    return Ok(());
                }
                let mut side = T::make(&param).map_err(|er| Viol::new("harness", er))?;
                for it in items {
                    side.feed(<T::Item as Item>::from_bits2(*it));
                }
                if *restored && is_node {
                    let json = side.to_json();
                    if crate::framework::nonfinite_state(&side.dbg(), &json, side.observe().into_iter().map(|s| s.1)) {
                        st.bump("probe.checkpoint_nonfinite_skipped");
                    } else {
                        st.bump("fault.restored_merge_operand");
                        let blob = side.to_blob(crate::medium::pick(&json));
                        st.bump(crate::medium::key_of_blob(&blob));
                        side = side.from_json(&blob).map_err(|er| {
                            Viol::new(
                                format!("{}:restore_parse", T::type_name()),
                                format!("side operand does not deserialise from medium {}: {} json={}", crate::medium::name_of_blob(&blob), er, json),
                            )
                        })?;
                    }
                }
                e.join(&side);
            }
            _ => {}
        }
        Ok(())
    };

    let restore_from = |ck: &Ckpt, proto: &T, st: &mut Stats| -> Result<T, Viol> {
        st.bump(crate::medium::key_of_blob(&ck.blob));
        let r = proto.from_json(&ck.blob).map_err(|er| {
            Viol::new(
                format!("{}:restore_parse", T::type_name()),
                format!("checkpoint does not deserialise from medium {}: {} json={}", crate::medium::name_of_blob(&ck.blob), er, ck.json),
            )
        })?;
        if prop == DProp::C18 {
            st.oracle_evals += 1;
            if let Some(d) = obs_diff(&r.observe(), &ck.obs) {
                return Err(Viol::new(
                    format!("{}:roundtrip_statistic", T::type_name()),
                    format!("restored from the checkpoint at stream position {}: {} json={}", ck.pos, d, ck.json),
                ));
            }
            if r.dbg() != ck.dbg {
                return Err(Viol::new(
                    format!("{}:roundtrip_state", T::type_name()),
                    format!("restored from the checkpoint at stream position {}: state {} but it was {} json={}", ck.pos, r.dbg(), ck.dbg, ck.json),
                ));
            }
        }
        Ok(r)
    };

    for (oi, op) in tr.ops.iter().enumerate() {
        st.sim_events += 1;
        match op {
            DOp::Add(a, _) => {
                if is_q {
                    let xv = f64::from_bits(*a);
                    if !xv.is_finite() {
                        continue; // outside the domain of C05/C15/C18 for Quantile
                    }
                }
                apply(&mut node, op, true, pos, st, &first5)?;
                apply(&mut twin, op, false, pos, st, &first5)?;
                pos += 1;
                if is_q {
                    let xv = f64::from_bits(*a);
                    run_min = run_min.min(xv);
                    run_max = run_max.max(xv);
                    if first5.len() < 5 {
                        first5.push(xv);
                    }
                    if prop == DProp::C05 {
                        post_states.push(Some(p2model::state(node.as_quantile().unwrap()).map_err(|e| Viol::new("Quantile:state_unreadable", e))?));
                    }
                }
            }
            DOp::Merge { .. } => {
                apply(&mut node, op, true, pos, st, &first5)?;
                apply(&mut twin, op, false, pos, st, &first5)?;
                pos += 1;
            }
            DOp::Checkpoint => {
                let obs = node.observe();
                let dbg = node.dbg();
                let json = node.to_json();
                if prop == DProp::C18 {
                    st.oracle_evals += 1;
                    if let Some(d) = obs_diff(&node.observe(), &obs) {
                        return Err(Viol::new(format!("{}:serialize_modifies", name), format!("op {}: serialising changed a statistic: {}", oi, d)));
                    }
                    if node.dbg() != dbg || node.to_json() != json {
                        return Err(Viol::new(format!("{}:serialize_modifies", name), format!("op {}: serialising changed the state", oi)));
                    }
                }
                if crate::framework::nonfinite_state(&dbg, &json, obs.iter().map(|s| s.1)) {
                    st.bump("probe.checkpoint_nonfinite_skipped");
                    continue;
                }
                st.bump("probe.checkpoint");
                if is_q && pos < 5 {
                    st.bump("probe.checkpoint_inside_first_five");
                }
                let blob = node.to_blob(crate::medium::pick(&json));
                ckpts.push(Ckpt { pos, json, blob, obs, dbg });
            }
            DOp::Crash | DOp::Stale { .. } => {
                let fresh = mk("restart")?;
                let (mut restored, from_pos) = if ckpts.is_empty() {
                    st.bump("fault.crash_cold_restart");
                    (fresh, 0)
                } else {
                    let idx = match op {
                        DOp::Stale { back } => {
                            st.bump("fault.stale_restore");
                            ckpts.len() - 1 - (*back).min(ckpts.len() - 1)
                        }
                        _ => {
                            st.bump("fault.crash_restart");
                            ckpts.len() - 1
                        }
                    };
                    let r = restore_from(&ckpts[idx], &node, st)?;
                    (r, ckpts[idx].pos)
                };
                if is_q && prop == DProp::C05 {
                    // the induction chain: the restored state is the state recorded at that position
                    let s = p2model::state(restored.as_quantile().unwrap()).map_err(|e| Viol::new("Quantile:state_unreadable", e))?;
                    if let Some(Some(w)) = post_states.get(from_pos) {
                        if &s != w {
                            return Err(Viol::new(
                                "Quantile:p2_chain_broken_by_restore",
                                format!("state restored for stream position {} is {:?}, it was {:?}", from_pos, s, w),
                            ));
                        }
                    }
                }
                // re-consume the suffix
                let mut f5: Vec<f64> = vec![];
                if is_q {
                    for o in stream.iter().take(from_pos) {
                        if let DOp::Add(a, _) = o {
                            let xv = f64::from_bits(*a);
                            if xv.is_finite() && f5.len() < 5 {
                                f5.push(xv);
                            }
                        }
                    }
                }
                let mut k = from_pos;
                let mut consumed = 0usize;
                // map stream position -> stream op, skipping the non-finite adds a Quantile ignored
                let effective: Vec<&DOp> = stream
                    .iter()
                    .filter(|o| match o {
                        DOp::Add(a, _) if is_q => f64::from_bits(*a).is_finite(),
                        _ => true,
                    })
                    .copied()
                    .collect();
                while k < pos {
                    let o = effective[k];
                    apply(&mut restored, o, true, k, st, &f5)?;
                    if is_q {
                        if let DOp::Add(a, _) = o {
                            if f5.len() < 5 {
                                f5.push(f64::from_bits(*a));
                            }
                        }
                    }
                    k += 1;
                    consumed += 1;
                }
                st.add("probe.suffix_ops_refed", consumed as u64);
                node = restored;
            }
            DOp::Migrate { times } => {
                for _ in 0..*times {
                    let json = node.to_json();
                    if crate::framework::nonfinite_state(&node.dbg(), &json, node.observe().into_iter().map(|s| s.1)) {
                        st.bump("probe.checkpoint_nonfinite_skipped");
                        break;
                    }
                    st.bump("fault.migrate");
                    let blob = node.to_blob(crate::medium::pick(&json));
                    let ck = Ckpt { pos, json, blob, obs: node.observe(), dbg: node.dbg() };
                    node = restore_from(&ck, &node, st)?;
                }
            }
        }
        // after every operation: node and twin are at the same stream position
        match prop {
            DProp::C18 => {
                st.oracle_evals += 1;
                if node.count() != twin.count() {
                    return Err(Viol::new(
                        format!("{}:restored_len", name),
                        format!("after op {} {:?}: len {:?} but the uninterrupted twin has {:?}", oi, short(op), node.count(), twin.count()),
                    ));
                }
                if let Some(d) = obs_diff(&node.observe(), &twin.observe()) {
                    return Err(Viol::new(
                        format!("{}:restored_continuation", name),
                        format!("after op {} {:?} (stream position {}): node vs uninterrupted twin: {}", oi, short(op), pos, d),
                    ));
                }
                if node.dbg() != twin.dbg() {
                    return Err(Viol::new(
                        format!("{}:restored_state", name),
                        format!("after op {} {:?}: node state {} but uninterrupted twin {}", oi, short(op), node.dbg(), twin.dbg()),
                    ));
                }
            }
            DProp::C15 => {
                if let Some(q) = node.as_quantile() {
                    st.oracle_evals += 1;
                    quantile_invariants(q, param.p, pos, run_min, run_max, oi)?;
                }
            }
            DProp::C05 => {}
        }
    }
    Ok(())
}

fn short(op: &DOp) -> String {
    match op {
        DOp::Add(a, b) => format!("Add({:e},{:e})", f64::from_bits(*a), f64::from_bits(*b)),
        DOp::Merge { items, restored } => format!("Merge({} items, restored={})", items.len(), restored),
        o => format!("{:?}", o),
    }
}

pub fn quantile_invariants(q: &Quantile, p: f64, n: usize, run_min: f64, run_max: f64, oi: usize) -> Result<(), Viol> {
    if q.len() != n as u64 {
        return Err(Viol::new("Quantile:len", format!("after op {}: len() = {} after {} observations", oi, q.len(), n)));
    }
    if q.is_empty() != (n == 0) {
        return Err(Viol::new("Quantile:is_empty", format!("after op {}: is_empty() = {} with len() = {}", oi, q.is_empty(), q.len())));
    }
    if q.p().to_bits() != p.to_bits() {
        return Err(Viol::new("Quantile:p", format!("after op {}: p() = {:e} but constructed with {:e}", oi, q.p(), p)));
    }
    let est = q.quantile();
    if !same_bits(est, q.estimate()) {
        return Err(Viol::new("Quantile:estimate", format!("after op {}: estimate() = {:e} but quantile() = {:e}", oi, q.estimate(), est)));
    }
    if n == 0 {
        if !est.is_nan() {
            return Err(Viol::new("Quantile:empty_not_nan", format!("quantile() of the empty estimator is {:e}", est)));
        }
        return Ok(());
    }
    if !(est >= run_min && est <= run_max) {
        // known finding K2: below five observations the estimate is 0.5*a + 0.5*b; for subnormal
        // a, b each half is rounded, so the result can miss [a, b] by a unit of 2^-1074
        let subnormal_small = n < 5 && run_min.abs().max(run_max.abs()) < f64::MIN_POSITIVE;
        return Err(Viol::new(
            if subnormal_small { "Quantile:outside_data_range:subnormal_small_sample" } else { "Quantile:outside_data_range" },
            format!("after op {} ({} observations): quantile() = {:e} outside [{:e}, {:e}]", oi, n, est, run_min, run_max),
        ));
    }
    if n >= 5 {
        let s = p2model::state(q).map_err(|e| Viol::new("Quantile:state_unreadable", e))?;
        if !s.q.windows(2).all(|w| w[0] <= w[1]) {
            return Err(Viol::new("Quantile:heights_not_sorted", format!("after op {} ({} observations): marker heights {:?}", oi, n, s.q)));
        }
        if s.q[0] != run_min || s.q[4] != run_max {
            return Err(Viol::new(
                "Quantile:extreme_markers",
                format!("after op {} ({} observations): extreme markers ({:e}, {:e}) but running min/max are ({:e}, {:e})", oi, n, s.q[0], s.q[4], run_min, run_max),
            ));
        }
    }
    Ok(())
}

/// Quantile::new must panic exactly for p outside [0,1] or NaN
pub fn quantile_ctor_contract(st: &mut Stats) -> Result<(), Viol> {
    let bad = [-0.1, 1.0000000000000002, f64::NAN, f64::INFINITY, f64::NEG_INFINITY, -5e-324, 2.0, -1.0];
    let good = [0.0, -0.0, 1.0, 0.5, 5e-324, 0.9999999999999999];
    for p in bad {
        let r = catch_unwind(|| Quantile::new(p));
        st.bump("fault.panic_unwind_invalid_p");
        if r.is_ok() {
            return Err(Viol::new("Quantile:new_accepts_invalid_p", format!("Quantile::new({:e}) did not panic", p)));
        }
    }
    for p in good {
        let r = catch_unwind(|| Quantile::new(p));
        match r {
            Err(_) => return Err(Viol::new("Quantile:new_rejects_valid_p", format!("Quantile::new({:e}) panicked", p))),
            Ok(q) => {
                if q.p().to_bits() != p.to_bits() && !(p == 0.0 && q.p() == 0.0) {
                    return Err(Viol::new("Quantile:p", format!("Quantile::new({:e}).p() = {:e}", p, q.p())));
                }
            }
        }
    }
    Ok(())
}

fn dispatch(prop: DProp, tr: &DTrace, st: &mut Stats) -> Result<(), Viol> {
    use crate::types::*;
    match tr.ty.as_str() {
        "Mean" => run_d::<average::Mean>(prop, tr, st),
        "Variance" => run_d::<average::Variance>(prop, tr, st),
        "Skewness" => run_d::<average::Skewness>(prop, tr, st),
        "Kurtosis" => run_d::<average::Kurtosis>(prop, tr, st),
        "Moments4" => run_d::<average::Moments4>(prop, tr, st),
        "M4" => run_d::<M4>(prop, tr, st),
        "M5" => run_d::<M5>(prop, tr, st),
        "M6" => run_d::<M6>(prop, tr, st),
        "M8" => run_d::<M8>(prop, tr, st),
        "M10" => run_d::<M10>(prop, tr, st),
        "Min" => run_d::<average::Min>(prop, tr, st),
        "Max" => run_d::<average::Max>(prop, tr, st),
        "Quantile" => run_d::<QDur>(prop, tr, st),
        "WeightedMean" => run_d::<average::WeightedMean>(prop, tr, st),
        "WeightedMeanWithError" => run_d::<average::WeightedMeanWithError>(prop, tr, st),
        "Covariance" => run_d::<average::Covariance>(prop, tr, st),
        "Histogram" => run_d::<HDur>(prop, tr, st),
        t => Err(Viol::new("harness", format!("unknown type {} in trace", t))),
    }
}

const P_GRID: [f64; 7] = [0.0, 1.0, 0.5, 0.25, 0.125, 0.875, 0.99];
const ALPHABET: [f64; 4] = [0.0, 1.0, 2.0, 5.0];

impl DScenario {
    fn gen_quantile_stream(rng: &mut Rng, tier: Tier, extreme_ok: bool) -> (f64, Vec<f64>) {
        let p = match rng.below(8) {
            0 => 0.0,
            1 => 1.0,
            2 => 0.5,
            3 => rng.below(9) as f64 / 8.0,
            4 => 0.01,
            5 => 0.99,
            _ => rng.f(),
        };
        let max_len = match tier {
            Tier::Quick => 400,
            Tier::Thorough => 5000,
        };
        let len = if rng.below(2500) == 0 {
            // rarely: a stream crossing 2^15 and 2^16 observations
            rng.range(33_000, 70_000)
        } else {
            match rng.below(10) {
            0 => rng.usize(8),
            1..=6 => 5 + rng.usize(40),
            7..=8 => 5 + rng.usize(300.min(max_len)),
            _ => 5 + rng.usize(max_len),
            }
        };
        let kind = rng.below(10);
        let alph = 2 + rng.below(3);
        // mostly moderate scales; sometimes values close to the largest / smallest finite f64
        // (C15 only: same-sign values close to the largest / smallest finite f64; C05's
        // relative tolerances are not meaningful where intermediate results over/underflow)
        let extreme = extreme_ok && rng.below(8) == 0;
        let scale = if extreme {
            if rng.chance(0.6) {
                10f64.powf(300.0 + rng.f() * 8.07)
            } else {
                10f64.powf(-300.0 - rng.f() * 7.0)
            }
        } else if rng.chance(0.5) {
            1.0
        } else {
            10f64.powf(rng.f() * 40.0 - 20.0)
        };
        let off = if rng.below(2) == 0 || extreme { 0.0 } else { scale * 10f64.powi(rng.below(10) as i32) };
        let sign = if rng.chance(0.5) { 1.0 } else { -1.0 };
        let subnormal = extreme && rng.chance(0.3);
        let trend = rng.normal() * 0.1;
        let data: Vec<f64> = (0..len)
            .map(|i| {
                let z = match kind {
                        0 => rng.f(),
                        1 => rng.below(alph) as f64,
                        2 => i as f64,
                        3 => -(i as f64),
                        4 => {
                            if i % 2 == 0 {
                                i as f64
                            } else {
                                -(i as f64)
                            }
                        }
                        5 => (i as f64) * trend + rng.f(),
                        6 => -(rng.f().max(1e-300)).ln(),
                        7 => {
                            // heavy duplicates with rare new extremes
                            if rng.chance(0.9) {
                                3.0
                            } else {
                                rng.normal() * 10.0
                            }
                        }
                        8 => {
                            // both signs of zero among small integers
                            match rng.below(5) {
                                0 => -0.0,
                                1 => 0.0,
                                k => k as f64 - 3.0,
                            }
                        }
                        _ => rng.normal(),
                    };
                // kind 8 keeps the sign of zero (0.0 + -0.0 would lose it)
                let v = if kind == 8 {
                    z
                } else if extreme && subnormal {
                    // deep subnormals: k * 2^-1074 with small k
                    sign * f64::from_bits(1 + (z.abs() * 1000.0) as u64 % 5000)
                } else if extreme && scale > 1e300 && rng.below(12) == 0 {
                    // the largest finite value itself
                    sign * f64::MAX
                } else if extreme {
                    sign * (scale * z.abs().min(1.49))
                } else {
                    off + scale * z
                };
                if v.is_finite() {
                    v
                } else {
                    f64::MAX.copysign(v)
                }
            })
            .collect();
        (p, data)
    }

    fn add_faults(rng: &mut Rng, ops: Vec<DOp>) -> Vec<DOp> {
        // 30% of the runs are fault-free
        if rng.chance(0.3) || ops.is_empty() {
            return ops;
        }
        let max_faults = (ops.len() + 3) / 4;
        let n_faults = 1 + rng.usize(max_faults.min(24));
        // swarm: enabled fault kinds
        let kinds: Vec<u8> = (0..4u8).filter(|_| rng.chance(0.6)).collect();
        let kinds = if kinds.is_empty() { vec![0, 1] } else { kinds };
        let short = ops.len() <= 32;
        let every_pos = short && rng.chance(0.3);
        let mut at: Vec<usize> = (0..n_faults).map(|_| rng.usize(ops.len() + 1)).collect();
        at.sort();
        let mut out = vec![];
        let mut ai = 0;
        for (i, op) in ops.into_iter().enumerate() {
            if every_pos {
                out.push(DOp::Checkpoint);
                if rng.chance(0.3) {
                    out.push(DOp::Crash);
                }
            }
            while ai < at.len() && at[ai] == i {
                ai += 1;
                match kinds[rng.usize(kinds.len())] {
                    0 => out.push(DOp::Checkpoint),
                    1 => {
                        if rng.chance(0.5) {
                            out.push(DOp::Checkpoint);
                        }
                        out.push(DOp::Crash);
                    }
                    2 => out.push(DOp::Stale { back: rng.usize(3) }),
                    _ => out.push(DOp::Migrate { times: 1 + rng.below(2) as u8 }),
                }
            }
            out.push(op);
        }
        while ai < at.len() {
            ai += 1;
            out.push(DOp::Checkpoint);
            out.push(DOp::Crash);
        }
        out
    }

    fn generate(&self, seed: u64, index: u64, tier: Tier) -> DTrace {
        let mut rng = Rng::new(seed);
        if self.enumerate {
            // run index -> (p, stream of length 10 over a 4-letter alphabet)
            let pi = (index % 7) as usize;
            let mut code = index / 7;
            let mut ops = vec![];
            for _ in 0..10 {
                ops.push(DOp::Add(ALPHABET[(code % 4) as usize].to_bits(), 0));
                code /= 4;
            }
            let mut t = DTrace { scenario: self.name().to_string(), ty: "Quantile".into(), via_default: false, p: P_GRID[pi].to_bits(), hist_len: 0, edges: vec![], ops, readable: vec![] };
            refresh(&mut t);
            return t;
        }
        if matches!(self.prop, DProp::C05 | DProp::C15) && index == 3 {
            // one run per batch: a single estimator that sees more than 2^20 observations
            let len = (1usize << 20) + 200;
            let p = [0.5, 0.9, 0.25][(seed % 3) as usize];
            let ops: Vec<DOp> = (0..len).map(|_| DOp::Add((rng.f() * 100.0).to_bits(), 0)).collect();
            let mut t = DTrace { scenario: self.name().to_string(), ty: "Quantile".into(), via_default: false, p: (p as f64).to_bits(), hist_len: 0, edges: vec![], ops, readable: vec![] };
            refresh(&mut t);
            return t;
        }
        let ty = match self.prop {
            DProp::C05 | DProp::C15 => "Quantile",
            DProp::C18 => TYPES[rng.usize(TYPES.len())],
        };
        let mut t = DTrace { scenario: self.name().to_string(), ty: ty.to_string(), via_default: false, p: 0, hist_len: 0, edges: vec![], ops: vec![], readable: vec![] };
        match ty {
            "Quantile" => {
                let (p, data) = Self::gen_quantile_stream(&mut rng, tier, matches!(self.prop, DProp::C15 | DProp::C05));
                t.p = p.to_bits();
                t.via_default = p == 0.5 && rng.chance(0.5);
                let ops: Vec<DOp> = data.iter().map(|x| DOp::Add(x.to_bits(), 0)).collect();
                t.ops = Self::add_faults(&mut rng, ops);
            }
            "Histogram" => {
                let len = [1usize, 2, 3, 4, 7, 8, 10, 64, 100, 256][rng.usize(10)];
                let lo = (rng.f() - 0.5) * 10.0;
                let mut e: Vec<f64> = (0..=len).map(|_| ((rng.f() * 8.0) * 4.0).round() / 4.0 + lo.round()).collect();
                e.sort_by(|a, b| a.partial_cmp(b).unwrap());
                t.hist_len = len;
                t.edges = e.iter().map(|x| x.to_bits()).collect();
                let n = rng.range(0, 60);
                let (a, b) = (e[0], e[len]);
                let mut ops = vec![];
                for _ in 0..n {
                    if rng.chance(0.12) {
                        let k = rng.usize(6);
                        let items = (0..k).map(|_| ((a + (b - a) * (rng.f() * 1.2 - 0.1)).to_bits(), 0)).collect();
                        ops.push(DOp::Merge { items, restored: rng.chance(0.5) });
                    } else {
                        let x = if rng.chance(0.2) { e[rng.usize(e.len())] } else { a + (b - a) * (rng.f() * 1.2 - 0.1) };
                        ops.push(DOp::Add(x.to_bits(), 0));
                    }
                }
                t.ops = Self::add_faults(&mut rng, ops);
            }
            _ => {
                let pair = matches!(ty, "WeightedMean" | "WeightedMeanWithError" | "Covariance");
                let n = crate::gen::pick_n(&mut rng, match tier { Tier::Quick => 200, Tier::Thorough => 1000 });
                let items: Vec<(u64, u64)> = if pair {
                    if ty == "Covariance" {
                        crate::gen::pairs_c09(&mut rng, n).0.iter().map(|p| (p.0.to_bits(), p.1.to_bits())).collect()
                    } else {
                        crate::gen::weighted_c08(&mut rng, n).0.iter().map(|p| (p.0.to_bits(), p.1.to_bits())).collect()
                    }
                } else {
                    crate::gen::scalar_c01(&mut rng, n).0.iter().map(|x| (x.to_bits(), 0)).collect()
                };
                let merge_rate = if rng.chance(0.5) { 0.0 } else { 0.15 };
                let mut ops = vec![];
                let mut i = 0;
                while i < items.len() {
                    if rng.chance(merge_rate) {
                        let k = rng.usize(8).min(items.len() - i);
                        ops.push(DOp::Merge { items: items[i..i + k].to_vec(), restored: rng.chance(0.5) });
                        i += k;
                        if k == 0 {
                            // an empty side operand
                            continue;
                        }
                    } else {
                        ops.push(DOp::Add(items[i].0, items[i].1));
                        i += 1;
                    }
                }
                t.ops = Self::add_faults(&mut rng, ops);
            }
        }
        refresh(&mut t);
        t
    }

    fn execute(&self, tr: &DTrace, st: &mut Stats) -> Option<Viol> {
        let prop = self.prop;
        let r = catch_unwind(AssertUnwindSafe(|| {
            if prop == DProp::C15 {
                quantile_ctor_contract(st)?;
            }
            dispatch(prop, tr, st)
        }));
        match r {
            Ok(r) => r.err(),
            Err(p) => {
                let loc = last_panic_location();
                if crate::framework::is_harness_location(&loc) {
                    Some(Viol::new("harness", format!("harness panicked at {}: {}", loc, panic_message(&p))))
                } else {
                    Some(Viol::new(format!("{}:panic", tr.ty), format!("estimator code panicked at {}: {}", loc, panic_message(&p))))
                }
            }
        }
    }
}

fn refresh(t: &mut DTrace) {
    t.readable = t.ops.iter().take(64).map(short).collect();
    if t.ty == "Quantile" {
        t.readable.insert(0, if t.via_default { "Quantile::default()".to_string() } else { format!("Quantile::new({:e})", f64::from_bits(t.p)) });
    }
}

#[derive(Clone, Debug)]
enum DEdit {
    DropFaults,
    DropOps(usize, usize),
    Unrestore(usize),
    MergeToAdds(usize),
    SetValue(usize, u64),
    SetP(u64),
}

fn d_edits(tr: &DTrace) -> Vec<DEdit> {
    let mut out = vec![];
    let n = tr.ops.len();
    if tr.ops.iter().any(|o| !is_stream(o)) {
        out.push(DEdit::DropFaults);
    }
    let mut s = n / 2;
    while s >= 1 {
        let mut lo = 0;
        while lo + s <= n {
            out.push(DEdit::DropOps(lo, lo + s));
            lo += s;
        }
        s /= 2;
    }
    for (i, o) in tr.ops.iter().enumerate() {
        if let DOp::Merge { restored, .. } = o {
            if *restored {
                out.push(DEdit::Unrestore(i));
            }
            out.push(DEdit::MergeToAdds(i));
        }
    }
    if n <= 80 {
        for (i, o) in tr.ops.iter().enumerate() {
            if let DOp::Add(a, _) = o {
                let x = f64::from_bits(*a);
                for y in [0.0, 1.0, x.round(), (x * 8.0).round() / 8.0] {
                    if y.is_finite() && !same_bits(x, y) {
                        out.push(DEdit::SetValue(i, y.to_bits()));
                    }
                }
            }
        }
    }
    if tr.ty == "Quantile" {
        for p in [0.5f64, 0.0, 1.0] {
            if f64::from_bits(tr.p) != p {
                out.push(DEdit::SetP(p.to_bits()));
            }
        }
    }
    out
}

fn d_apply(tr: &DTrace, e: &DEdit) -> Option<DTrace> {
    let mut t = tr.clone();
    match e {
        DEdit::DropFaults => t.ops.retain(is_stream),
        DEdit::DropOps(lo, hi) => {
            t.ops.drain(*lo..*hi);
        }
        DEdit::Unrestore(i) => {
            if let DOp::Merge { items, .. } = &tr.ops[*i] {
                t.ops[*i] = DOp::Merge { items: items.clone(), restored: false };
            }
        }
        DEdit::MergeToAdds(i) => {
            if let DOp::Merge { items, .. } = &tr.ops[*i] {
                let adds: Vec<DOp> = items.iter().map(|it| DOp::Add(it.0, it.1)).collect();
                t.ops.splice(*i..*i + 1, adds);
            }
        }
        DEdit::SetValue(i, bits) => {
            if let DOp::Add(_, b) = &tr.ops[*i] {
                t.ops[*i] = DOp::Add(*bits, *b);
            }
        }
        DEdit::SetP(p) => t.p = *p,
    }
    Some(t)
}

impl Scenario for DScenario {
    fn name(&self) -> &'static str {
        match (self.prop, self.enumerate) {
            (DProp::C05, true) => "D/C05-enum",
            (DProp::C15, true) => "D/C15-enum",
            (p, _) => p.scen_name(),
        }
    }
    fn run(&self, seed: u64, index: u64, tier: Tier, st: &mut Stats) -> (RunInfo, Option<Failure>) {
        let tr = self.generate(seed, index, tier);
        let mut key = 0xcbf29ce484222325u64;
        let s = serde_json::to_string(&(&tr.ty, tr.p, &tr.edges, &tr.ops)).unwrap();
        for b in s.bytes() {
            key = (key ^ b as u64).wrapping_mul(0x100000001b3);
        }
        let faults = tr.ops.iter().filter(|o| !is_stream(o)).count();
        let nontrivial = faults >= 1 || tr.ops.len() >= 6;
        let v = self.execute(&tr, st);
        let f = v.map(|viol| Failure { viol, trace: serde_json::to_value(&tr).unwrap() });
        (RunInfo { key, nontrivial }, f)
    }
    fn replay(&self, trace: &Value, st: &mut Stats) -> Result<Option<Viol>, String> {
        let tr: DTrace = serde_json::from_value(trace.clone()).map_err(|e| format!("bad D trace: {}", e))?;
        Ok(self.execute(&tr, st))
    }
    fn minimise(&self, trace: &Value, class: &str, budget: usize) -> (Value, Viol, usize) {
        let tr: DTrace = match serde_json::from_value(trace.clone()) {
            Ok(t) => t,
            Err(e) => return (trace.clone(), Viol::new("harness", format!("bad trace: {}", e)), 0),
        };
        let (mut t, v, tries) = crate::framework::minimise_typed(
            tr,
            class,
            budget,
            d_edits,
            d_apply,
            |t: &DTrace| t.ops.len() * 2,
            |t| {
                let mut st = Stats::default();
                self.execute(t, &mut st)
            },
        );
        refresh(&mut t);
        (serde_json::to_value(&t).unwrap(), v, tries)
    }
    fn sample(&self, seed: u64, tier: Tier) -> Value {
        let mut best = self.generate(seed, seed % 1000, tier);
        for k in 1..200u64 {
            if best.ops.len() <= 16 && best.ops.iter().any(|o| !is_stream(o)) || self.enumerate {
                break;
            }
            best = self.generate(crate::rng::mix(seed, k), k, tier);
        }
        serde_json::to_value(&best).unwrap()
    }
    fn rule(&self) -> String {
        if self.enumerate {
            return format!("{}: exhaustive sweep, run index -> (p in {{0,1,1/2,1/4,1/8,7/8,0.99}}, stream of length 10 over the alphabet {{0,1,2,5}}); all 7*4^10 cases when the run count allows, a prefix otherwise; distinct = distinct (p, stream)", self.name());
        }
        format!(
            "{}: one run = one operation stream (adds, merges of side estimators) consumed by a durable node with seeded checkpoint / crash_restart / stale_restore / migrate / restored-operand faults (30% of runs fault-free, at most ops/4 faults) next to an uninterrupted twin; distinct = distinct (type, parameters, operation+fault list); non-trivial = at least one fault or at least six operations",
            self.name()
        )
    }
}
