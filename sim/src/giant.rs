//! C05 / C15 on streams far longer than an explicit trace can hold: one Quantile node is fed
//! 2^23 (quick) or more than 2^31 (thorough) observations from a counter-based generator;
//! the trace is (p, length, generator seed). The P-square one-step oracle (p2model) and the
//! range / bookkeeping invariants are evaluated on a sample of the steps: the first 64, 32
//! consecutive steps at every multiple of 2^16, and the last 2000. A panic inside the crate
//! (overflowing integer arithmetic on positions, for instance) is a violation.
#![allow(dead_code)]

use crate::durable::quantile_invariants;
use crate::framework::{last_panic_location, panic_message, Failure, RunInfo, Scenario, Stats, Tier, Viol};
use crate::p2model;
use crate::rng::mix;
use average::{Estimate, Quantile};
use serde::{Deserialize, Serialize};
use serde_json::Value;
use std::panic::{catch_unwind, AssertUnwindSafe};

#[derive(Serialize, Deserialize, Clone, Debug)]
pub struct GTrace {
    pub scenario: String,
    pub p: u64,
    pub len: u64,
    pub gen_seed: u64,
}

pub struct GiantScenario {
    pub c15: bool,
}

/// observation number `i` of the stream: uniform in (0, 100), one in eight a multiple of 1/16
/// in [0, 16) (ties with earlier observations and with markers)
#[inline]
fn obs(gen_seed: u64, i: u64) -> f64 {
    let r = mix(gen_seed, i);
    let u = (r >> 11) as f64 / (1u64 << 53) as f64;
    if r & 7 == 0 {
        (u * 256.0).floor() / 16.0
    } else {
        u * 100.0
    }
}

impl GiantScenario {
    fn label(&self) -> &'static str {
        if self.c15 {
            "D/C15-giant"
        } else {
            "D/C05-giant"
        }
    }
    fn trace(&self, seed: u64, index: u64, tier: Tier) -> GTrace {
        let p = [0.99, 0.5, 0.01][(index % 3) as usize];
        let len = match tier {
            Tier::Quick => (1u64 << 23) + 1000,
            // marker distances beyond 2^31: the widest distance is about len for extreme p and
            // about len/2 for the median
            Tier::Thorough => {
                if p == 0.5 {
                    (1u64 << 32) + (1u64 << 28)
                } else {
                    (1u64 << 31) + (1u64 << 27)
                }
            }
        };
        GTrace { scenario: self.label().into(), p: (p as f64).to_bits(), len, gen_seed: mix(seed, 0x6a09e667) }
    }
    fn execute_inner(&self, tr: &GTrace, st: &mut Stats) -> Result<(), Viol> {
        let p = f64::from_bits(tr.p);
        let mut q = Quantile::new(p);
        let (mut lo, mut hi) = (f64::INFINITY, f64::NEG_INFINITY);
        let n = tr.len;
        for i in 0..n {
            let x = obs(tr.gen_seed, i);
            let sampled = i < 64 || (i & 0xffff) < 32 || n - i <= 2000;
            let pre = if sampled && i >= 5 { Some(p2model::state(&q).map_err(|e| Viol::new("Quantile:state_unreadable", e))?) } else { None };
            q.add(x);
            lo = lo.min(x);
            hi = hi.max(x);
            if sampled {
                st.oracle_evals += 1;
                quantile_invariants(&q, p, (i + 1) as usize, lo, hi, i as usize)?;
                if let Some(pre) = pre {
                    if !self.c15 {
                        let post = p2model::state(&q).map_err(|e| Viol::new("Quantile:state_unreadable", e))?;
                        match p2model::check_step(&pre, x, &post) {
                            Ok(info) => {
                                st.add("probe.p2_parabolic_moves", info.parabolic as u64);
                                st.add("probe.p2_linear_moves", info.linear as u64);
                            }
                            Err((what, detail)) => {
                                return Err(Viol::new(format!("Quantile:p2_step:{}", what), format!("observation {} of a stream of {}: {}", i, n, detail)));
                            }
                        }
                    }
                }
            }
        }
        st.add("probe.giant_stream_observations", n);
        if n > 1 << 31 {
            st.bump("probe.stream_longer_than_2^31");
        }
        Ok(())
    }
    fn execute(&self, tr: &GTrace, st: &mut Stats) -> Option<Viol> {
        match catch_unwind(AssertUnwindSafe(|| self.execute_inner(tr, st))) {
            Ok(r) => r.err(),
            Err(pn) => {
                let loc = last_panic_location();
                if crate::framework::is_harness_location(&loc) {
                    Some(Viol::new("harness", format!("harness panicked at {}: {}", loc, panic_message(&pn))))
                } else {
                    Some(Viol::new("Quantile:panic", format!("stream of up to {} observations, p = {:e}: panicked at {}: {}", tr.len, f64::from_bits(tr.p), loc, panic_message(&pn))))
                }
            }
        }
    }
}

impl Scenario for GiantScenario {
    fn name(&self) -> &'static str {
        self.label()
    }
    fn run(&self, seed: u64, index: u64, tier: Tier, st: &mut Stats) -> (RunInfo, Option<Failure>) {
        let tr = self.trace(seed, index, tier);
        st.bump("probe.giant_stream_run");
        let v = self.execute(&tr, st);
        let f = v.map(|viol| Failure { viol, trace: serde_json::to_value(&tr).unwrap() });
        (RunInfo { key: mix(tr.gen_seed, tr.p ^ tr.len), nontrivial: true }, f)
    }
    fn replay(&self, trace: &Value, st: &mut Stats) -> Result<Option<Viol>, String> {
        let tr: GTrace = serde_json::from_value(trace.clone()).map_err(|e| format!("bad giant-stream trace: {}", e))?;
        Ok(self.execute(&tr, st))
    }
    fn minimise(&self, trace: &Value, class: &str, budget: usize) -> (Value, Viol, usize) {
        let tr: GTrace = match serde_json::from_value(trace.clone()) {
            Ok(t) => t,
            Err(e) => return (trace.clone(), Viol::new("harness", format!("bad trace: {}", e)), 0),
        };
        // shorten the stream by bisection on its length while the same class persists
        let mut st = Stats::default();
        let mut best = tr.clone();
        let mut bv = match self.execute(&best, &mut st) {
            Some(v) => v,
            None => return (trace.clone(), Viol::new("harness", "violation does not reproduce".to_string()), 1),
        };
        let (mut lo, mut hi) = (0u64, best.len);
        let mut tries = 1;
        while hi - lo > 1 && tries < budget.min(40) {
            let mid = lo + (hi - lo) / 2;
            let mut c = best.clone();
            c.len = mid;
            tries += 1;
            match self.execute(&c, &mut st) {
                Some(v) if v.class == class => {
                    hi = mid;
                    best = c;
                    bv = v;
                }
                _ => lo = mid,
            }
        }
        (serde_json::to_value(&best).unwrap(), bv, tries)
    }
    fn sample(&self, seed: u64, tier: Tier) -> Value {
        serde_json::to_value(self.trace(seed, 0, tier)).unwrap()
    }
    fn rule(&self) -> String {
        format!(
            "{}: one run = one Quantile node fed a generated stream of 2^23+1000 (quick) or 2^31+2^27 / 2^32+2^28 (thorough) observations for p in {{0.99, 0.5, 0.01}}; {} on the first 64 steps, 32 consecutive steps at every multiple of 2^16 and the last 2000; a panic in the crate is a violation; distinct = distinct (p, length, generator seed); every run non-trivial",
            self.label(),
            if self.c15 { "range, length and marker-order invariants" } else { "P-square one-step refinement from the implementation's own pre-state plus range and bookkeeping invariants" }
        )
    }
}
