//! C11, histories of merge and clone only: an estimator merged with a clone of itself k times
//! holds n*2^k observations after k operations - the cheapest way to reach counts beyond 2^53
//! (where an f64 can no longer count) and count products beyond 2^64. Lengths must still add
//! exactly, the empty estimator must still be an identity, the argument must stay untouched.
#![allow(dead_code)]

use crate::framework::{Failure, RunInfo, Scenario, Stats, Tier, Viol};
use crate::gen;
use crate::props_r::guarded;
use crate::rng::Rng;
use crate::types::*;
use serde::{Deserialize, Serialize};
use serde_json::Value;

#[derive(Serialize, Deserialize, Clone, Debug)]
pub struct DblTrace {
    pub scenario: String,
    pub pair: bool,
    pub base: Vec<(u64, u64)>,
    pub doublings: u8,
    pub extra: Vec<(u64, u64)>,
}

pub struct DoublingScenario;

fn run_one<E: Est>(base: &[E::Item], doublings: u8, extra: &[E::Item], st: &mut Stats) -> Result<(), Viol> {
    let mut a = E::fresh();
    for &x in base {
        a.push(x);
    }
    let mut expect: u64 = base.len() as u64;
    for k in 0..doublings {
        let c = a.clone();
        let dbg = c.debug();
        a.absorb(&c);
        expect *= 2;
        st.oracle_evals += 1;
        if c.debug() != dbg {
            return Err(Viol::new(format!("{}:argument_modified", E::NAME), format!("doubling {}: merge changed its argument", k)));
        }
        if let Some(n) = a.count() {
            if n != expect {
                return Err(Viol::new(
                    format!("{}:len_additivity", E::NAME),
                    format!("after {} self-merges of an estimator of len {}: len() = {} expected {}", k + 1, base.len(), n, expect),
                ));
            }
            if let Some(e) = a.empty_flag() {
                if e != (n == 0) {
                    return Err(Viol::new(format!("{}:is_empty", E::NAME), format!("is_empty() = {} with len() = {}", e, n)));
                }
            }
        }
    }
    let mut b = E::fresh();
    for &x in extra {
        b.push(x);
    }
    // both directions
    let mut ab = a.clone();
    ab.absorb(&b);
    let mut ba = b.clone();
    ba.absorb(&a);
    if let (Some(x), Some(y), Some(na), Some(nb)) = (ab.count(), ba.count(), a.count(), b.count()) {
        if x != na + nb || y != na + nb {
            return Err(Viol::new(
                format!("{}:len_additivity", E::NAME),
                format!("len {} merged with len {}: a.merge(b) has len {}, b.merge(a) has len {}, expected {}", na, nb, x, y, na + nb),
            ));
        }
        if na >= (1u64 << 53) {
            st.bump("probe.count_beyond_2_53");
        }
    }
    // the empty estimator is still an exact identity
    let mut a2 = a.clone();
    a2.absorb(&E::fresh());
    if let Some((s, x, y)) = stats_identical(&a2.stats_vec(), &a.stats_vec()) {
        return Err(Viol::new(
            format!("{}:empty_right_identity", E::NAME),
            format!("len {:?}: a.merge(&new()) changed {} from {:e} to {:e}", a.count(), s.name(), y, x),
        ));
    }
    let mut f = E::fresh();
    f.absorb(&a);
    if let Some((s, x, y)) = stats_identical(&f.stats_vec(), &a.stats_vec()) {
        return Err(Viol::new(
            format!("{}:empty_left_identity", E::NAME),
            format!("len {:?}: new().merge(&a) has {} = {:e}, a has {:e}", a.count(), s.name(), x, y),
        ));
    }
    if f.count() != a.count() || a2.count() != a.count() {
        return Err(Viol::new(format!("{}:len_additivity", E::NAME), "merge with an empty estimator changed len()".to_string()));
    }
    Ok(())
}

impl DoublingScenario {
    fn generate(&self, seed: u64) -> DblTrace {
        let mut rng = Rng::new(seed);
        let pair = rng.chance(0.3);
        let nb = rng.range(1, 6);
        let ne = rng.range(1, 140);
        // keep the total below 2^62
        let max_d = 61 - (64 - (nb as u64).leading_zeros()) as usize;
        let doublings = match rng.below(4) {
            0 => rng.range(0, 8),
            1 => rng.range(20, 40),
            _ => rng.range(50, max_d),
        } as u8;
        let (base, extra): (Vec<(u64, u64)>, Vec<(u64, u64)>) = if pair {
            let (d, _, _) = gen::weighted_c08(&mut rng, nb + ne);
            let v: Vec<(u64, u64)> = d.iter().map(|p| (p.0.to_bits(), p.1.to_bits())).collect();
            (v[..nb].to_vec(), v[nb..].to_vec())
        } else {
            let (d, _) = gen::scalar_c01(&mut rng, nb + ne);
            let v: Vec<(u64, u64)> = d.iter().map(|x| (x.to_bits(), 0)).collect();
            (v[..nb].to_vec(), v[nb..].to_vec())
        };
        DblTrace { scenario: "C11/doubling".into(), pair, base, doublings, extra }
    }
    fn execute(&self, tr: &DblTrace, st: &mut Stats) -> Option<Viol> {
        let mut res: Result<(), Viol> = Ok(());
        if tr.pair {
            let base: Vec<(f64, f64)> = tr.base.iter().map(|b| (f64::from_bits(b.0), f64::from_bits(b.1))).collect();
            let extra: Vec<(f64, f64)> = tr.extra.iter().map(|b| (f64::from_bits(b.0), f64::from_bits(b.1))).collect();
            crate::for_pair_types!(T => {
                if res.is_ok() {
                    res = guarded(T::NAME, || run_one::<T>(&base, tr.doublings, &extra, st));
                }
            });
        } else {
            let base: Vec<f64> = tr.base.iter().map(|b| f64::from_bits(b.0)).collect();
            let extra: Vec<f64> = tr.extra.iter().map(|b| f64::from_bits(b.0)).collect();
            crate::for_scalar_types!(T => {
                if res.is_ok() {
                    res = guarded(T::NAME, || run_one::<T>(&base, tr.doublings, &extra, st));
                }
            });
        }
        res.err()
    }
}

impl Scenario for DoublingScenario {
    fn name(&self) -> &'static str {
        "C11/doubling"
    }
    fn run(&self, seed: u64, _index: u64, _tier: Tier, st: &mut Stats) -> (RunInfo, Option<Failure>) {
        let tr = self.generate(seed);
        st.sim_events += tr.doublings as u64 + 2;
        let mut key = 0xcbf29ce484222325u64 ^ tr.doublings as u64;
        for d in tr.base.iter().chain(tr.extra.iter()) {
            key = (key ^ d.0 ^ d.1.rotate_left(9)).wrapping_mul(0x100000001b3);
        }
        let v = self.execute(&tr, st);
        let f = v.map(|viol| Failure { viol, trace: serde_json::to_value(&tr).unwrap() });
        (RunInfo { key, nontrivial: tr.doublings >= 1 }, f)
    }
    fn replay(&self, trace: &Value, st: &mut Stats) -> Result<Option<Viol>, String> {
        let tr: DblTrace = serde_json::from_value(trace.clone()).map_err(|e| format!("bad doubling trace: {}", e))?;
        if tr.base.is_empty() || tr.doublings > 61 {
            return Err("doubling trace out of bounds".into());
        }
        Ok(self.execute(&tr, st))
    }
    fn minimise(&self, trace: &Value, class: &str, budget: usize) -> (Value, Viol, usize) {
        let tr: DblTrace = match serde_json::from_value(trace.clone()) {
            Ok(t) => t,
            Err(e) => return (trace.clone(), Viol::new("harness", format!("bad trace: {}", e)), 0),
        };
        let (t, v, tries) = crate::framework::minimise_typed(
            tr,
            class,
            budget,
            |t: &DblTrace| {
                let mut e: Vec<(u8, usize)> = vec![];
                for d in [t.doublings / 2, t.doublings.saturating_sub(1)] {
                    if d < t.doublings {
                        e.push((0, d as usize));
                    }
                }
                for i in (0..t.extra.len()).rev() {
                    e.push((1, i));
                }
                for i in (0..t.base.len()).rev() {
                    if t.base.len() > 1 {
                        e.push((2, i));
                    }
                }
                e
            },
            |t: &DblTrace, e: &(u8, usize)| {
                let mut c = t.clone();
                match e.0 {
                    0 => c.doublings = e.1 as u8,
                    1 => {
                        c.extra.remove(e.1);
                    }
                    _ => {
                        c.base.remove(e.1);
                    }
                }
                Some(c)
            },
            |t: &DblTrace| t.base.len() + t.extra.len(),
            |t| {
                let mut st = Stats::default();
                self.execute(t, &mut st)
            },
        );
        (serde_json::to_value(&t).unwrap(), v, tries)
    }
    fn sample(&self, seed: u64, _tier: Tier) -> Value {
        let mut t = self.generate(seed);
        t.extra.truncate(4);
        serde_json::to_value(&t).unwrap()
    }
    fn rule(&self) -> String {
        "C11/doubling: one run = an estimator of 1..6 observations merged with a clone of itself k <= 58 times (len = n*2^k, beyond 2^53), then merged with a small estimator in both directions and with the empty estimator, for every Merge type; distinct = distinct (data bits, k); non-trivial = k >= 1".into()
    }
}
