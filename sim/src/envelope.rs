//! The table of DESIGN.md "Error envelopes": exact statistics of a sample and the
//! admissible distance of each reported statistic from them.
#![allow(dead_code)]

use crate::exact;
use crate::types::Stat;

pub const U: f64 = 1.1102230246251565e-16; // 2^-53

#[derive(Clone, Debug)]
pub struct ExactScalar {
    pub n: u64,
    pub mean: f64,
    pub central: Vec<f64>,
    pub abs_central: Vec<f64>,
    pub max_abs: f64,
    pub min: f64,
    pub max: f64,
    pub sigma: f64,
    pub kappa: f64,
}

pub fn exact_scalar(data: &[f64], pmax: u32) -> ExactScalar {
    let m = exact::moments(data, pmax.max(2));
    let sigma = m.central[2].sqrt();
    let kappa = if sigma > 0. { 1. + m.max_abs / sigma } else { f64::INFINITY };
    let mut mn = f64::INFINITY;
    let mut mx = f64::NEG_INFINITY;
    for &x in data {
        if x < mn {
            mn = x;
        }
        if x > mx {
            mx = x;
        }
    }
    ExactScalar {
        n: m.n,
        mean: m.mean,
        central: m.central,
        abs_central: m.abs_central,
        max_abs: m.max_abs,
        min: mn,
        max: mx,
        sigma,
        kappa,
    }
}

#[derive(Clone, Debug)]
pub struct ExactPair {
    pub x: ExactScalar,
    pub y: ExactScalar,
    pub cxy: f64,
    /// exact weighted mean, sum w, sum w^2 reading the second coordinate as weight
    pub wmean: f64,
    pub sum_w: f64,
    pub sum_w2: f64,
    pub weights_ok: bool,
}

pub fn exact_pair(data: &[(f64, f64)]) -> ExactPair {
    exact_pair_sel(data, true, true)
}

/// `cov`: compute the co-moment (C09); `weighted`: compute the weighted sums (C08)
pub fn exact_pair_sel(data: &[(f64, f64)], cov: bool, weighted: bool) -> ExactPair {
    let xs: Vec<f64> = data.iter().map(|p| p.0).collect();
    let ys: Vec<f64> = data.iter().map(|p| p.1).collect();
    let x = exact_scalar(&xs, 2);
    let y = exact_scalar(&ys, 2);
    let cxy = if data.is_empty() || !cov { f64::NAN } else { exact::comoment(&xs, &ys) };
    let (wmean, sum_w, sum_w2) = if weighted { exact::weighted(&xs, &ys) } else { (f64::NAN, f64::NAN, f64::NAN) };
    let weights_ok = ys.iter().all(|&w| w >= 0.);
    ExactPair { x, y, cxy, wmean, sum_w, sum_w2, weights_ok }
}

#[derive(Clone, Copy, Debug, PartialEq)]
pub enum Verdict {
    /// inside the envelope; payload = |got-exact| / (eps*scale)  (to be compared with C)
    Ok(f64),
    /// outside the domain in which the envelope is asserted
    Skip,
    /// outside the envelope: (exact, tolerance)
    Fail(f64, f64),
}

fn c_p(p: usize) -> f64 {
    if p <= 3 {
        16.
    } else {
        (1u64 << (p + 1)) as f64
    }
}

fn decide(got: f64, exact: f64, c: f64, eps: f64, scale: f64) -> Verdict {
    if !exact.is_finite() || !scale.is_finite() {
        return Verdict::Skip;
    }
    if c * eps > 1. {
        return Verdict::Skip;
    }
    let tol = c * eps * scale + 8. * U * exact.abs();
    if got.is_nan() {
        return Verdict::Fail(exact, tol);
    }
    let diff = (got - exact).abs();
    if diff <= tol {
        let r = if diff == 0. { 0. } else if eps * scale > 0. { diff / (eps * scale) } else { 0. };
        Verdict::Ok(r)
    } else {
        Verdict::Fail(exact, tol)
    }
}

impl ExactScalar {
    pub fn eps(&self) -> f64 {
        self.n as f64 * self.kappa * U
    }
    /// range guards for order p
    fn in_range(&self, p: usize) -> bool {
        let n = self.n as f64;
        let pw = p as i32;
        n * self.max_abs.powi(pw) < 1e300 && self.sigma.powi(pw) >= 1e-250
    }

    /// Envelope verdict for a statistic of a moment-family estimator built from
    /// exactly this sample (in any chunking / merge tree).
    pub fn judge(&self, stat: Stat, got: f64) -> Verdict {
        let n = self.n as f64;
        if self.n == 0 {
            return Verdict::Skip; // sentinels of the empty sample are C16, not claimed
        }
        let m2 = self.central[2];
        if stat == Stat::Mean {
            if !(self.sigma > 0.) {
                let tol = 16. * n * U * self.max_abs + 8. * U * self.mean.abs();
                let d = (got - self.mean).abs();
                return if d <= tol { Verdict::Ok(0.) } else { Verdict::Fail(self.mean, tol) };
            }
            // 16 n u (sigma + M); no kappa restriction needed, the bound is absolute
            let tol = 16. * n * U * (self.sigma + self.max_abs) + 8. * U * self.mean.abs();
            let d = (got - self.mean).abs();
            if !(n * self.max_abs < 1e300) {
                return Verdict::Skip;
            }
            return if d <= tol {
                Verdict::Ok(d / (n * U * (self.sigma + self.max_abs)))
            } else {
                Verdict::Fail(self.mean, tol)
            };
        }
        if !(self.sigma > 0.) || !self.kappa.is_finite() {
            return Verdict::Skip;
        }
        let eps = self.eps();
        let s = self.sigma;
        match stat {
            Stat::PopVar | Stat::Central(2) => {
                if !self.in_range(2) {
                    return Verdict::Skip;
                }
                decide(got, m2, 16., eps, m2)
            }
            Stat::SampleVar => {
                if self.n < 2 || !self.in_range(2) {
                    return Verdict::Skip;
                }
                let f = n / (n - 1.);
                decide(got, m2 * f, 16., eps, m2 * f)
            }
            Stat::VarOfMean => {
                if self.n < 2 || !self.in_range(2) {
                    return Verdict::Skip;
                }
                decide(got, m2 / (n - 1.), 16., eps, m2 / (n - 1.))
            }
            Stat::Error => {
                if self.n < 2 || !self.in_range(2) {
                    return Verdict::Skip;
                }
                let e = (m2 / (n - 1.)).sqrt();
                decide(got, e, 16., eps, e)
            }
            Stat::Central(p) if p >= 3 => {
                let p = p as usize;
                if p >= self.central.len() || !self.in_range(p) {
                    return Verdict::Skip;
                }
                decide(got, self.central[p], c_p(p), eps, self.abs_central[p])
            }
            Stat::Standardized(p) if p >= 3 => {
                let p = p as usize;
                if p >= self.central.len() || !self.in_range(p) {
                    return Verdict::Skip;
                }
                let sp = s.powi(p as i32);
                decide(got, self.central[p] / sp, c_p(p) + 8. * p as f64, eps, self.abs_central[p] / sp)
            }
            Stat::Skew => {
                if self.central.len() <= 3 || !self.in_range(6) {
                    return Verdict::Skip;
                }
                let s3 = s * s * s;
                decide(got, self.central[3] / s3, 40., eps, self.abs_central[3] / s3)
            }
            Stat::Kurt => {
                if self.central.len() <= 4 || !self.in_range(4) {
                    return Verdict::Skip;
                }
                let s4 = m2 * m2;
                decide(got, self.central[4] / s4 - 3., 64., eps, self.abs_central[4] / s4)
            }
            Stat::SampleSkew => {
                if self.central.len() <= 3 || !self.in_range(3) || self.n < 2 {
                    return Verdict::Skip;
                }
                if self.n == 2 {
                    let scale = self.abs_central[3] / (2. * m2).powf(1.5);
                    return decide(got, 0., 40., eps, scale);
                }
                let f = (n * (n - 1.)).sqrt() / (n - 2.);
                let s3 = s * s * s;
                decide(got, f * self.central[3] / s3, 40., eps, f * self.abs_central[3] / s3)
            }
            Stat::SampleExKurt => {
                if self.central.len() <= 4 || !self.in_range(4) || self.n < 4 {
                    return Verdict::Skip;
                }
                let s4 = m2 * m2;
                let g2 = self.central[4] / s4 - 3.;
                let exact = (n - 1.) / ((n - 2.) * (n - 3.)) * ((n + 1.) * g2 + 6.);
                let scale = (n - 1.) * (n + 1.) / ((n - 2.) * (n - 3.)) * self.abs_central[4] / s4;
                decide(got, exact, 64., eps, scale)
            }
            _ => Verdict::Skip,
        }
    }

    /// exact (no tolerance) values: central_moment(0/1), standardized_moment(0/1/2)
    pub fn exact_value(&self, stat: Stat) -> Option<f64> {
        match stat {
            Stat::Central(0) => Some(1.),
            Stat::Central(1) => Some(0.),
            Stat::Standardized(0) => Some(self.n as f64),
            Stat::Standardized(1) => Some(0.),
            Stat::Standardized(2) => Some(1.),
            _ => None,
        }
    }
}

impl ExactPair {
    pub fn kappa(&self) -> f64 {
        let kx = if self.x.sigma > 0. { self.x.max_abs / self.x.sigma } else { f64::INFINITY };
        let ky = if self.y.sigma > 0. { self.y.max_abs / self.y.sigma } else { f64::INFINITY };
        1. + kx.max(ky)
    }

    /// Covariance statistics (second coordinate = y).
    pub fn judge_cov(&self, stat: Stat, got: f64) -> Verdict {
        let n = self.x.n as f64;
        if self.x.n == 0 {
            return Verdict::Skip;
        }
        match stat {
            Stat::MeanX => return self.x.judge(Stat::Mean, got),
            Stat::MeanY => return self.y.judge(Stat::Mean, got),
            Stat::PopVarX => return self.x.judge(Stat::PopVar, got),
            Stat::SampleVarX => return self.x.judge(Stat::SampleVar, got),
            Stat::PopVarY => return self.y.judge(Stat::PopVar, got),
            Stat::SampleVarY => return self.y.judge(Stat::SampleVar, got),
            _ => {}
        }
        if !(self.x.sigma > 0.) || !(self.y.sigma > 0.) {
            return Verdict::Skip;
        }
        let kappa = self.kappa();
        let eps = n * kappa * U;
        let range_ok = n * self.x.max_abs * self.y.max_abs < 1e300
            && self.x.central[2] >= 1e-250
            && self.y.central[2] >= 1e-250;
        if !range_ok {
            return Verdict::Skip;
        }
        let sxy = self.x.sigma * self.y.sigma;
        match stat {
            Stat::PopCov => decide(got, self.cxy, 16., eps, sxy),
            Stat::SampleCov => {
                if self.x.n < 2 {
                    return Verdict::Skip;
                }
                let f = n / (n - 1.);
                decide(got, self.cxy * f, 16., eps, sxy * f)
            }
            Stat::Pearson => {
                if self.x.n < 2 {
                    return Verdict::Skip;
                }
                decide(got, self.cxy / sxy, 32., eps, 1.)
            }
            _ => Verdict::Skip,
        }
    }

    /// Weighted statistics (second coordinate = weight >= 0).
    pub fn judge_weighted(&self, stat: Stat, got: f64) -> Verdict {
        let n = self.x.n as f64;
        if self.x.n == 0 || !self.weights_ok {
            return Verdict::Skip;
        }
        match stat {
            Stat::Mean | Stat::PopVar | Stat::SampleVar => return self.x.judge(stat, got),
            _ => {}
        }
        let rel = |got: f64, exact: f64, relb: f64| -> Verdict {
            if !exact.is_finite() {
                return Verdict::Skip;
            }
            let tol = (relb + 8. * U) * exact.abs();
            if got.is_nan() {
                return Verdict::Fail(exact, tol);
            }
            let d = (got - exact).abs();
            if d <= tol {
                Verdict::Ok(if d == 0. { 0. } else { d / (n * U * exact.abs()) })
            } else {
                Verdict::Fail(exact, tol)
            }
        };
        match stat {
            Stat::SumW => rel(got, self.sum_w, 8. * n * U),
            Stat::SumW2 => rel(got, self.sum_w2, 8. * n * U),
            Stat::EffLen => {
                if !(self.sum_w > 0.) {
                    return Verdict::Skip;
                }
                rel(got, self.sum_w * self.sum_w / self.sum_w2, 8. * n * U)
            }
            Stat::WMean => {
                if !(self.sum_w > 0.) || !(n * self.x.max_abs * self.y.max_abs < 1e300) {
                    return Verdict::Skip;
                }
                let tol = 32. * n * U * self.x.max_abs + 8. * U * self.wmean.abs();
                if got.is_nan() {
                    return Verdict::Fail(self.wmean, tol);
                }
                let d = (got - self.wmean).abs();
                if d <= tol {
                    Verdict::Ok(if d == 0. { 0. } else { d / (n * U * self.x.max_abs) })
                } else {
                    Verdict::Fail(self.wmean, tol)
                }
            }
            Stat::VarWMean | Stat::WError => {
                if !(self.sum_w > 0.) || self.x.n < 2 || !(self.x.sigma > 0.) || !self.x.in_range(2) {
                    return Verdict::Skip;
                }
                let kappa = self.x.kappa;
                let relb = (16. * kappa + 16.) * n * U;
                if relb > 1. {
                    return Verdict::Skip;
                }
                let sv = self.x.central[2] * n / (n - 1.);
                let v = sv * self.sum_w2 / (self.sum_w * self.sum_w);
                if stat == Stat::VarWMean {
                    rel(got, v, relb)
                } else {
                    rel(got, v.sqrt(), relb)
                }
            }
            _ => Verdict::Skip,
        }
    }
}
