//! Batch runner: seeds -> runs -> violations -> minimised replay files -> evidence.
#![allow(dead_code)]

use crate::rng::mix;
use serde_json::{json, Value};
use std::collections::{BTreeMap, HashSet};
use std::sync::atomic::{AtomicU64, Ordering};
use std::sync::Mutex;
use std::time::Instant;

#[derive(Clone, Copy, Debug, PartialEq, Eq)]
pub enum Tier {
    Quick,
    Thorough,
}

impl Tier {
    pub fn name(&self) -> &'static str {
        match self {
            Tier::Quick => "quick",
            Tier::Thorough => "thorough",
        }
    }
}

/// A property violation: `class` identifies WHAT failed (type + statistic/invariant),
/// used to keep the violation class fixed while minimising and to match known findings.
#[derive(Clone, Debug)]
pub struct Viol {
    pub class: String,
    pub detail: String,
}

impl Viol {
    pub fn new(class: impl Into<String>, detail: impl Into<String>) -> Viol {
        Viol { class: class.into(), detail: detail.into() }
    }
}

/// counters, probes, fault counts, worst envelope ratios of one run / one batch
#[derive(Clone, Debug, Default)]
pub struct Stats {
    pub counters: BTreeMap<&'static str, u64>,
    pub worst: BTreeMap<String, f64>,
    pub sim_events: u64,
    pub oracle_evals: u64,
    /// small named sets of hashes (reach measures such as "distinct n=6 trees")
    pub sets: BTreeMap<&'static str, std::collections::BTreeSet<u64>>,
}

impl Stats {
    pub fn note(&mut self, name: &'static str, h: u64) {
        let s = self.sets.entry(name).or_default();
        if s.len() < 100_000 {
            s.insert(h);
        }
    }
    #[inline]
    pub fn bump(&mut self, name: &'static str) {
        *self.counters.entry(name).or_insert(0) += 1;
    }
    #[inline]
    pub fn add(&mut self, name: &'static str, k: u64) {
        *self.counters.entry(name).or_insert(0) += k;
    }
    pub fn ratio(&mut self, key: &str, r: f64) {
        if let Some(e) = self.worst.get_mut(key) {
            if r > *e {
                *e = r;
            }
        } else {
            self.worst.insert(key.to_string(), r);
        }
    }
    pub fn merge(&mut self, o: &Stats) {
        for (k, v) in &o.counters {
            *self.counters.entry(k).or_insert(0) += v;
        }
        for (k, v) in &o.worst {
            self.ratio(k, *v);
        }
        self.sim_events += o.sim_events;
        self.oracle_evals += o.oracle_evals;
        for (k, v) in &o.sets {
            let s = self.sets.entry(k).or_default();
            for h in v {
                if s.len() < 100_000 {
                    s.insert(*h);
                }
            }
        }
    }
}

pub struct Failure {
    pub viol: Viol,
    /// explicit, self-contained description of the run (scenario, data bits, tree/ops, faults)
    pub trace: Value,
}

pub struct RunInfo {
    /// hash identifying the case for the distinct count
    pub key: u64,
    /// non-trivial by the scenario's stated rule
    pub nontrivial: bool,
}

/// One simulator configuration deciding (part of) one property.
pub trait Scenario: Sync {
    fn name(&self) -> &'static str;
    /// generate a run from `seed` and execute it
    fn run(&self, seed: u64, index: u64, tier: Tier, st: &mut Stats) -> (RunInfo, Option<Failure>);
    /// re-execute an explicit trace (from a replay file or the minimiser)
    fn replay(&self, trace: &Value, st: &mut Stats) -> Result<Option<Viol>, String>;
    /// minimise a failing trace while the same violation class persists
    fn minimise(&self, trace: &Value, class: &str, budget: usize) -> (Value, Viol, usize);
    /// a sample case for the evidence file
    fn sample(&self, seed: u64, tier: Tier) -> Value;
    /// the rule text for evidence
    fn rule(&self) -> String;
}

pub struct Plan {
    pub scenario: Box<dyn Scenario>,
    pub runs_quick: u64,
    pub runs_thorough: u64,
}

pub struct BatchResult {
    pub stats: Stats,
    pub evaluations: u64,
    pub distinct_nontrivial: u64,
    /// (run index, failure): for every violation class the KEEP lowest run indices, whatever
    /// the number of harness threads
    pub failures: Vec<(u64, Failure)>,
    /// number of failing runs per violation class (all of them, not only the retained ones)
    pub class_counts: BTreeMap<String, u64>,
    pub wall_s: f64,
}

pub fn n_threads() -> usize {
    std::env::var("VERIF_THREADS").ok().and_then(|s| s.parse().ok()).unwrap_or_else(|| {
        std::thread::available_parallelism().map(|n| n.get()).unwrap_or(4).min(16)
    })
}

/// Run `runs` independent simulated executions of `sc`, spread over OS threads.
/// The outcome is a function of (seed, runs) only, not of the thread count.
pub fn run_batch(sc: &dyn Scenario, seed: u64, runs: u64, tier: Tier) -> BatchResult {
    let t0 = Instant::now();
    let threads = n_threads().max(1);
    let next = AtomicU64::new(0);
    let agg = Mutex::new((Stats::default(), Vec::<(u64, Failure)>::new(), HashSet::<u64>::new(), BTreeMap::<String, u64>::new()));
    // failures retained per violation class (each thread sees its run indices in increasing order)
    const KEEP: u64 = 8;
    // small batches (the giant-stream scenarios have three runs) are spread over the threads
    let chunk: u64 = if runs < 64 * threads as u64 { 1 } else { 64 };
    std::thread::scope(|s| {
        for _ in 0..threads {
            std::thread::Builder::new()
                .stack_size(256 << 20)
                .spawn_scoped(s, || {
                    let mut st = Stats::default();
                    let mut fails: Vec<(u64, Failure)> = vec![];
                    let mut keys: HashSet<u64> = HashSet::new();
                    let mut counts: BTreeMap<String, u64> = BTreeMap::new();
                    loop {
                        let start = next.fetch_add(chunk, Ordering::Relaxed);
                        if start >= runs {
                            break;
                        }
                        for i in start..(start + chunk).min(runs) {
                            let run_seed = mix(seed, i);
                            // a panic that escapes a scenario's own guards is a harness error,
                            // never a crash of the whole batch
                            let r = std::panic::catch_unwind(std::panic::AssertUnwindSafe(|| sc.run(run_seed, i, tier, &mut st)));
                            let (info, f) = match r {
                                Ok(x) => x,
                                Err(p) => (
                                    RunInfo { key: 0, nontrivial: false },
                                    Some(Failure {
                                        viol: Viol::new("harness", format!("run {} (seed {}) panicked at {}: {}", i, run_seed, last_panic_location(), panic_message(&p))),
                                        trace: Value::Null,
                                    }),
                                ),
                            };
                            if info.nontrivial {
                                keys.insert(info.key);
                            }
                            if let Some(f) = f {
                                let c = counts.entry(f.viol.class.clone()).or_insert(0);
                                *c += 1;
                                if *c <= KEEP {
                                    fails.push((i, f));
                                }
                            }
                        }
                    }
                    let mut g = agg.lock().unwrap();
                    g.0.merge(&st);
                    g.1.extend(fails);
                    g.2.extend(keys);
                    for (k, v) in counts {
                        *g.3.entry(k).or_insert(0) += v;
                    }
                })
                .expect("spawn");
        }
    });
    let (stats, mut failures, keys, class_counts) = agg.into_inner().unwrap();
    failures.sort_by_key(|f| f.0);
    let mut kept: BTreeMap<String, u64> = BTreeMap::new();
    failures.retain(|f| {
        let c = kept.entry(f.1.viol.class.clone()).or_insert(0);
        *c += 1;
        *c <= KEEP
    });
    BatchResult {
        stats,
        evaluations: runs,
        distinct_nontrivial: keys.len() as u64,
        failures,
        class_counts,
        wall_s: t0.elapsed().as_secs_f64(),
    }
}

/// Greedy minimisation over typed traces: `edits` lists cheap edit descriptors for the
/// current trace, `apply` builds the edited trace lazily, `test` re-executes it. The first
/// edit that still fails with the same violation class is kept; repeat until none does.
pub fn minimise_typed<T: Clone, E>(
    start: T,
    class: &str,
    budget: usize,
    edits: impl Fn(&T) -> Vec<E>,
    apply: impl Fn(&T, &E) -> Option<T>,
    size: impl Fn(&T) -> usize,
    mut test: impl FnMut(&T) -> Option<Viol>,
) -> (T, Viol, usize) {
    let mut cur = start;
    let mut cur_viol = match test(&cur) {
        Some(v) => v,
        None => Viol::new(class, "original trace did not reproduce during minimisation"),
    };
    let mut tries = 0usize;
    let mut progress = true;
    // work budget: a try costs as much as the candidate is large, so that minimising a
    // huge trace stays bounded in time while small ones get many tries
    let mut work: usize = 0;
    let work_budget: usize = 60_000;
    while progress && tries < budget && work < work_budget {
        progress = false;
        for e in edits(&cur) {
            if tries >= budget || work >= work_budget {
                break;
            }
            let cand = match apply(&cur, &e) {
                Some(c) => c,
                None => continue,
            };
            tries += 1;
            work += 1 + size(&cand) / 256;
            if let Some(v) = test(&cand) {
                if v.class == class {
                    cur = cand;
                    cur_viol = v;
                    progress = true;
                    break;
                }
            }
        }
    }
    (cur, cur_viol, tries)
}

// ---------------------------------------------------------------------------------
// known findings
// ---------------------------------------------------------------------------------

#[derive(Clone, Debug)]
pub struct KnownFinding {
    pub property: String,
    pub status: String, // "known" | "fixed"
    pub class_prefixes: Vec<String>,
    pub id: String,
    pub what: String,
}

pub fn load_known(path: &str) -> Vec<KnownFinding> {
    let txt = match std::fs::read_to_string(path) {
        Ok(t) => t,
        Err(_) => return vec![],
    };
    let v: Value = match serde_json::from_str(&txt) {
        Ok(v) => v,
        Err(e) => {
            eprintln!("harness: cannot parse {}: {}", path, e);
            std::process::exit(2);
        }
    };
    let mut out = vec![];
    if let Some(a) = v.get("findings").and_then(|f| f.as_array()) {
        for f in a {
            out.push(KnownFinding {
                property: f["property"].as_str().unwrap_or("").to_string(),
                status: f["status"].as_str().unwrap_or("").to_string(),
                class_prefixes: f["classes"].as_array().map(|a| a.iter().filter_map(|x| x.as_str().map(|s| s.to_string())).collect()).unwrap_or_default(),
                id: f["id"].as_str().unwrap_or("").to_string(),
                what: f["what"].as_str().unwrap_or("").to_string(),
            });
        }
    }
    out
}

pub fn evidence_json(
    property: &str,
    tier: Tier,
    seed: u64,
    parts: &[(String, &BatchResult, String, Vec<Value>)],
    extra: Value,
    violations: usize,
    wall_s: f64,
    assumptions: &[&str],
) -> Value {
    let mut evaluations = 0u64;
    let mut distinct = 0u64;
    let mut counters: BTreeMap<String, u64> = BTreeMap::new();
    let mut worst: BTreeMap<String, f64> = BTreeMap::new();
    let mut sim_events = 0u64;
    let mut oracle = 0u64;
    let mut rules = vec![];
    let mut samples = vec![];
    let mut per = vec![];
    for (name, b, rule, smp) in parts {
        evaluations += b.evaluations;
        distinct += b.distinct_nontrivial;
        sim_events += b.stats.sim_events;
        oracle += b.stats.oracle_evals;
        for (k, v) in &b.stats.counters {
            *counters.entry(format!("{}", k)).or_insert(0) += v;
        }
        for (k, v) in &b.stats.sets {
            *counters.entry(format!("{}", k)).or_insert(0) += v.len() as u64;
        }
        for (k, v) in &b.stats.worst {
            let e = worst.entry(k.clone()).or_insert(0.0);
            if *v > *e {
                *e = *v;
            }
        }
        rules.push(format!("[{}] {}", name, rule));
        samples.extend(smp.iter().cloned());
        per.push(json!({"scenario": name, "runs": b.evaluations, "distinct_nontrivial": b.distinct_nontrivial, "wall_s": b.wall_s}));
    }
    let faults: BTreeMap<String, u64> =
        counters.iter().filter(|(k, _)| k.starts_with("fault.")).map(|(k, v)| (k.clone(), *v)).collect();
    let probes: BTreeMap<String, u64> =
        counters.iter().filter(|(k, _)| !k.starts_with("fault.")).map(|(k, v)| (k.clone(), *v)).collect();
    let rph = if wall_s > 0. { (evaluations as f64 / wall_s * 3600.) as u64 } else { 0 };
    json!({
        "property_id": property,
        "tier": tier.name(),
        "seed": seed,
        "level": "exploration",
        "coverage": {
            "evaluations": evaluations,
            "distinct_nontrivial": distinct,
            "rule": rules.join(" | "),
            "samples": samples,
            "scenarios": per,
            "runs_per_hour": rph,
            "sim_events": sim_events,
            "oracle_evaluations": oracle,
            "faults_injected": faults,
            "probes": probes,
            "worst_envelope_ratio": worst,
            "extra": extra,
            "components": {
                "real": ["every add/merge/accessor/FromIterator/Extend/serde derive of vks/average (path dependency on /repo working tree)",
                         "rayon 1.10 fold/reduce/filter/map/copied consumers and FromParallelIterator glue (C19)",
                         "serde_json (float_roundtrip) as durable medium"],
                "stub": ["rayon-core thread pool / join / work stealing: modelled by sim/src/exec.rs (validated against real pools in C19)",
                         "durable store: in-memory blobs", "process crash: drop + deserialize"]
            }
        },
        "assumptions": assumptions,
        "wall_s": wall_s,
        "violations": violations,
    })
}

// ---------------------------------------------------------------------------------
// panics: silent hook that remembers where the panic came from
// ---------------------------------------------------------------------------------

thread_local! {
    static LAST_PANIC: std::cell::RefCell<String> = std::cell::RefCell::new(String::new());
}

pub fn install_panic_hook() {
    std::panic::set_hook(Box::new(|info| {
        let loc = info.location().map(|l| format!("{}:{}", l.file(), l.line())).unwrap_or_default();
        LAST_PANIC.with(|c| *c.borrow_mut() = loc);
        if std::env::var("VERIF_SHOW_PANICS").is_ok() {
            eprintln!("panic: {}", info);
        }
    }));
}

pub fn last_panic_location() -> String {
    LAST_PANIC.with(|c| c.borrow().clone())
}

/// panics raised from the harness' own sources are harness errors, not violations
pub fn is_harness_location(loc: &str) -> bool {
    // src/types.rs and src/htypes.rs hold the expansions of the crate's exported macros
    // (define_moments!, define_histogram!): a panic located there is crate code
    if loc.starts_with("src/types.rs") || loc.starts_with("src/htypes.rs") {
        return false;
    }
    loc.starts_with("src/") || loc.contains("/verif/sim/")
}

pub fn panic_message(p: &Box<dyn std::any::Any + Send>) -> String {
    if let Some(s) = p.downcast_ref::<&str>() {
        s.to_string()
    } else if let Some(s) = p.downcast_ref::<String>() {
        s.clone()
    } else {
        "panic".to_string()
    }
}

/// C18's precondition is "states whose fields are finite". Decided from the Debug form of
/// the state (never from the serialised text: a serialiser that writes `null` for a finite
/// field is a violation, not a skipped case).
pub fn has_nonfinite_field(debug: &str) -> bool {
    debug.contains("inf") || debug.contains("NaN")
}

/// The same decision when the Debug form might not show every field: a state is also
/// non-finite if its serialised text carries a `null` AND one of its reported statistics is
/// an infinity (an empty Min/Max, a histogram with an infinite outer edge). A `null` next to
/// finite statistics is never excused.
pub fn nonfinite_state(debug: &str, json: &str, stats: impl Iterator<Item = f64>) -> bool {
    if has_nonfinite_field(debug) {
        return true;
    }
    json.contains("null") && stats.into_iter().any(|x| x.is_infinite())
}
