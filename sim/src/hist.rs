//! H: histogram cluster. K nodes over up to two edge vectors, a seeded scheduler
//! choosing add / merge / += / *= / reset / clone / serde-migrate operations, and a
//! reference model (edge vector + Vec<u128> counts, linear-scan binning).
//! Decides C06, C13 and the histogram parts of C11, C17, C18.
#![allow(dead_code)]

use crate::envelope::U;
use crate::framework::{last_panic_location, panic_message, Failure, RunInfo, Scenario, Stats, Tier, Viol};
use crate::htypes::{self, Hist, LENS};
use crate::rng::Rng;
use crate::types::same_bits;
use serde::{Deserialize, Serialize};
use serde_json::Value;
use std::panic::{catch_unwind, AssertUnwindSafe};

#[derive(Clone, Copy, Debug, PartialEq, Eq)]
pub enum HProp {
    C06,
    C13,
    C11,
    C17,
    C18,
}

impl HProp {
    pub fn scen_name(&self) -> &'static str {
        match self {
            HProp::C06 => "H/C06",
            HProp::C13 => "H/C13",
            HProp::C11 => "H/C11",
            HProp::C17 => "H/C17",
            HProp::C18 => "H/C18",
        }
    }
}

#[derive(Serialize, Deserialize, Clone, Debug, PartialEq)]
pub enum Ctor {
    /// from_ranges(edge bit patterns)
    Ranges(Vec<u64>),
    /// with_const_width(start, end)
    ConstWidth(u64, u64),
}

#[derive(Serialize, Deserialize, Clone, Debug, PartialEq)]
pub enum HOp {
    Add { node: usize, x: u64 },
    Merge { dst: usize, src: usize },
    AddAssign { dst: usize, src: usize },
    Mul { node: usize, k: u64 },
    Reset { node: usize },
    CloneTo { dst: usize, src: usize },
    /// fault: serialise -> (other process) -> deserialise, `times` round trips
    Migrate { node: usize, times: u8 },
    /// probe: (a+b)+c == a+(b+c), a+b == b+a on clones, merge == +=
    Algebra { a: usize, b: usize, c: usize },
    /// probe: identity of merge with a fresh histogram over the same edges
    FreshIdentity { node: usize },
}

#[derive(Serialize, Deserialize, Clone, Debug)]
pub struct HTrace {
    pub scenario: String,
    pub len: usize,
    pub ctors: Vec<Ctor>,
    /// node i is built by ctors[nodes[i]]
    pub nodes: Vec<usize>,
    pub ops: Vec<HOp>,
    #[serde(default)]
    pub readable: Vec<String>,
}

pub struct HScenario {
    pub prop: HProp,
}

#[derive(Clone)]
struct Model {
    edges: Vec<f64>,
    counts: Vec<u128>,
}

impl Model {
    fn find(&self, x: f64) -> Option<usize> {
        if x.is_nan() {
            return None;
        }
        for i in 0..self.counts.len() {
            if self.edges[i] <= x && x < self.edges[i + 1] {
                return Some(i);
            }
        }
        None
    }
    fn total(&self) -> u128 {
        self.counts.iter().sum()
    }
    fn same_edges(&self, o: &Model) -> bool {
        self.edges.len() == o.edges.len() && self.edges.iter().zip(o.edges.iter()).all(|(a, b)| a == b)
    }
}

const LATTICE: [f64; 8] = [f64::NEG_INFINITY, -1.0, -0.0, 0.0, 0.5, 1.0, 2.0, f64::INFINITY];

fn next_up(x: f64) -> f64 {
    if x.is_nan() || x == f64::INFINITY {
        return x;
    }
    if x == 0. {
        return f64::from_bits(1);
    }
    let b = x.to_bits();
    if x > 0. {
        f64::from_bits(b + 1)
    } else {
        f64::from_bits(b - 1)
    }
}
fn next_down(x: f64) -> f64 {
    -next_up(-x)
}

fn gen_ctor(rng: &mut Rng, len: usize) -> Ctor {
    match rng.below(11) {
        10 => {
            // bins of subnormal width: edges are small multiples of 2^-1074, either sign of
            // zero, sometimes one ordinary value at the top
            let mut k: Vec<i64> = (0..=len).map(|_| rng.below(2 * len as u64 + 4) as i64 - (len as i64) / 2).collect();
            k.sort();
            let mut e: Vec<f64> = k.iter().map(|&k| if k == 0 && rng.chance(0.5) { -0.0 } else { k as f64 * f64::from_bits(1) }).collect();
            if rng.chance(0.3) {
                e[len] = 1.0;
            }
            if rng.chance(0.3) {
                return Ctor::ConstWidth(e[0].to_bits(), f64::from_bits(1).max(e[0] + (len as f64) * f64::from_bits(1 + rng.below(3))).to_bits());
            }
            Ctor::Ranges(e.iter().map(|x| x.to_bits()).collect())
        }
        0..=4 => {
            // sorted lattice multiset with repeats
            let mut e: Vec<f64> = (0..=len).map(|_| LATTICE[rng.usize(LATTICE.len())]).collect();
            e.sort_by(|a, b| a.partial_cmp(b).unwrap());
            Ctor::Ranges(e.iter().map(|x| x.to_bits()).collect())
        }
        5..=6 => {
            let a = (rng.f() - 0.5) * 10f64.powf(rng.f() * 8.0 - 4.0);
            if rng.chance(0.2) {
                // a width of only a few ulps of `start`: many tied edges
                let k = 1 + rng.below(300);
                let b = f64::from_bits(if a >= 0.0 { a.to_bits() + k } else { a.to_bits() - k });
                if b > a {
                    return Ctor::ConstWidth(a.to_bits(), b.to_bits());
                }
            }
            let w = 10f64.powf(rng.f() * 8.0 - 4.0);
            Ctor::ConstWidth(a.to_bits(), (a + w).to_bits())
        }
        7 => {
            // lattice but few distinct values: many empty bins
            let lo = LATTICE[rng.usize(LATTICE.len())];
            let hi = LATTICE[rng.usize(LATTICE.len())];
            let (lo, hi) = if lo <= hi { (lo, hi) } else { (hi, lo) };
            let cut = rng.usize(len + 2);
            let e: Vec<f64> = (0..=len).map(|i| if i < cut { lo } else { hi }).collect();
            Ctor::Ranges(e.iter().map(|x| x.to_bits()).collect())
        }
        _ => {
            let mut e: Vec<f64> = (0..=len).map(|_| (rng.normal() * 10f64.powf(rng.f() * 4.0 - 2.0) * 4.0).round() / 4.0).collect();
            e.sort_by(|a, b| a.partial_cmp(b).unwrap());
            if rng.chance(0.3) {
                e[0] = f64::NEG_INFINITY;
            }
            if rng.chance(0.3) {
                e[len] = f64::INFINITY;
            }
            Ctor::Ranges(e.iter().map(|x| x.to_bits()).collect())
        }
    }
}

fn gen_sample(rng: &mut Rng, edges: &[f64]) -> f64 {
    let e = edges[rng.usize(edges.len())];
    match rng.below(16) {
        0..=2 => e,
        3 => next_up(e),
        4 => next_down(e),
        5..=7 => {
            let i = rng.usize(edges.len() - 1);
            let (a, b) = (edges[i], edges[i + 1]);
            if a.is_finite() && b.is_finite() {
                0.5 * (a + b)
            } else if a.is_finite() {
                a + 1.0 + rng.f() * 1e6
            } else if b.is_finite() {
                b - 1.0 - rng.f() * 1e6
            } else {
                rng.normal() * 1e3
            }
        }
        8 => f64::INFINITY,
        9 => f64::NEG_INFINITY,
        10 => f64::NAN,
        11 => -0.0,
        12 => 0.0,
        13 => {
            // far outside
            let m = edges.iter().filter(|x| x.is_finite()).fold(1.0f64, |a, &b| a.max(b.abs()));
            (m * 4.0 + 1.0) * if rng.chance(0.5) { -1.0 } else { 1.0 }
        }
        _ => {
            let lo = edges.iter().copied().filter(|x| x.is_finite()).fold(f64::INFINITY, f64::min);
            let hi = edges.iter().copied().filter(|x| x.is_finite()).fold(f64::NEG_INFINITY, f64::max);
            if lo <= hi {
                lo + (hi - lo) * (rng.f() * 1.2 - 0.1)
            } else {
                rng.normal()
            }
        }
    }
}

fn build(len: usize, c: &Ctor) -> Result<Box<dyn Hist>, String> {
    match c {
        Ctor::Ranges(bits) => {
            let e: Vec<f64> = bits.iter().map(|b| f64::from_bits(*b)).collect();
            htypes::from_ranges(len, &e).map_err(|e| format!("{:?}", e))
        }
        Ctor::ConstWidth(a, b) => Ok(htypes::with_const_width(len, f64::from_bits(*a), f64::from_bits(*b))),
    }
}

impl HScenario {
    fn generate(&self, seed: u64, tier: Tier) -> HTrace {
        let mut rng = Rng::new(seed);
        let len = match rng.below(16) {
            0..=1 => 1,
            2..=3 => 2,
            4..=5 => 3,
            6..=7 => 4,
            8..=9 => 10,
            10..=11 => 100,
            12 => 7,
            13 => 8,
            14 => 64,
            _ => 256,
        };
        let n_ctors = if rng.chance(0.6) { 1 } else { 2 };
        let mut ctors: Vec<Ctor> = (0..n_ctors).map(|_| gen_ctor(&mut rng, len)).collect();
        if n_ctors == 2 && rng.chance(0.3) {
            // nearly identical edge vectors: differ in one edge only
            if let Ctor::Ranges(b) = &ctors[0] {
                let mut e: Vec<f64> = b.iter().map(|x| f64::from_bits(*x)).collect();
                let i = rng.usize(e.len());
                let zeros: Vec<usize> = (0..e.len()).filter(|&j| e[j] == 0.0).collect();
                if !zeros.is_empty() && rng.chance(0.5) {
                    // numerically identical edges that differ only in the sign of a zero
                    let j = zeros[rng.usize(zeros.len())];
                    e[j] = -e[j];
                    ctors[1] = Ctor::Ranges(e.iter().map(|x| x.to_bits()).collect());
                    e[j] = -e[j];
                }
                if e.len() >= 2 && rng.chance(0.3) {
                    // the same bit flipped in two edges (differences that cancel in a checksum)
                    let m = 1u64 << (44 + rng.below(8));
                    let (i1, i2) = (rng.usize(e.len()), rng.usize(e.len()));
                    if i1 != i2 {
                        let mut f = e.clone();
                        f[i1] = f64::from_bits(f[i1].to_bits() ^ m);
                        f[i2] = f64::from_bits(f[i2].to_bits() ^ m);
                        if f.iter().all(|x| !x.is_nan()) && f.windows(2).all(|w| w[0] <= w[1]) {
                            ctors[1] = Ctor::Ranges(f.iter().map(|x| x.to_bits()).collect());
                        }
                    }
                }
                let variant_chosen = ctors[1] != ctors[0] && matches!(&ctors[1], Ctor::Ranges(r) if r.len() == e.len()) && {
                    // one of the two variants above produced a sibling of ctors[0]
                    if let (Ctor::Ranges(a), Ctor::Ranges(b2)) = (&ctors[0], &ctors[1]) {
                        a.iter().zip(b2.iter()).filter(|(x, y)| x != y).count() <= 2
                    } else {
                        false
                    }
                };
                let cand = if rng.chance(0.5) { next_up(e[i]) } else { next_down(e[i]) };
                let ok = !variant_chosen && (i == 0 || e[i - 1] <= cand) && (i + 1 >= e.len() || cand <= e[i + 1]);
                if ok {
                    e[i] = cand;
                    ctors[1] = Ctor::Ranges(e.iter().map(|x| x.to_bits()).collect());
                }
            }
        }
        let k = rng.range(1, 4);
        let nodes: Vec<usize> = (0..k).map(|_| rng.usize(n_ctors)).collect();
        let max_ops = match tier {
            Tier::Quick => 60,
            Tier::Thorough => 200,
        };
        let n_ops = rng.range(1, max_ops);
        // swarm: per-run op mix
        let w_add = 4 + rng.below(12);
        let w_merge = rng.below(4);
        let w_addassign = rng.below(4);
        let w_mul = rng.below(3);
        let w_reset = rng.below(2);
        let w_clone = rng.below(2);
        let w_migrate = if rng.chance(0.7) { rng.below(3) } else { 0 };
        let w_alg = if matches!(self.prop, HProp::C13) { 1 + rng.below(2) } else { 0 };
        let w_fresh = if matches!(self.prop, HProp::C11) { 2 } else { 0 };
        let total = w_add + w_merge + w_addassign + w_mul + w_reset + w_clone + w_migrate + w_alg + w_fresh;
        let edges_of: Vec<Vec<f64>> = ctors
            .iter()
            .map(|c| match build(len, c) {
                Ok(h) => h.ranges(),
                Err(_) => vec![0.0; len + 1],
            })
            .collect();
        let mut ops = vec![];
        for _ in 0..n_ops {
            let mut r = rng.below(total);
            let node = rng.usize(k);
            let other = rng.usize(k);
            macro_rules! take {
                ($w:expr) => {{
                    if r < $w {
                        true
                    } else {
                        r -= $w;
                        false
                    }
                }};
            }
            if take!(w_add) {
                let x = gen_sample(&mut rng, &edges_of[nodes[node]]);
                ops.push(HOp::Add { node, x: x.to_bits() });
            } else if take!(w_merge) {
                ops.push(HOp::Merge { dst: node, src: other });
            } else if take!(w_addassign) {
                ops.push(HOp::AddAssign { dst: node, src: other });
            } else if take!(w_mul) {
                // small factors mostly; sometimes large ones so that counts pass 2^32
                let f = match rng.below(8) {
                    0 => 1000,
                    1 => 1_000_000,
                    2 => 1u64 << 31,
                    3 => 3_000_000_007,
                    _ => rng.below(5),
                };
                ops.push(HOp::Mul { node, k: f });
            } else if take!(w_reset) {
                ops.push(HOp::Reset { node });
            } else if take!(w_clone) {
                ops.push(HOp::CloneTo { dst: node, src: other });
            } else if take!(w_migrate) {
                ops.push(HOp::Migrate { node, times: 1 + rng.below(2) as u8 });
            } else if take!(w_alg) {
                ops.push(HOp::Algebra { a: node, b: other, c: rng.usize(k) });
            } else {
                ops.push(HOp::FreshIdentity { node });
            }
        }
        let mut t = HTrace { scenario: self.prop.scen_name().to_string(), len, ctors, nodes, ops, readable: vec![] };
        refresh(&mut t);
        t
    }

    fn execute(&self, tr: &HTrace, st: &mut Stats) -> Option<Viol> {
        match catch_unwind(AssertUnwindSafe(|| self.execute_inner(tr, st))) {
            Ok(r) => r.err(),
            Err(p) => {
                let loc = last_panic_location();
                if crate::framework::is_harness_location(&loc) {
                    Some(Viol::new("harness", format!("unguarded panic at {}: {}", loc, panic_message(&p))))
                } else {
                    // a panic raised by crate code on an operation that must not panic
                    Some(Viol::new("Histogram:panic", format!("histogram code panicked at {}: {}", loc, panic_message(&p))))
                }
            }
        }
    }

    fn execute_inner(&self, tr: &HTrace, st: &mut Stats) -> Result<(), Viol> {
        let prop = self.prop;
        let len = tr.len;
        if !LENS.contains(&len) {
            return Err(Viol::new("harness", "unsupported LEN in trace"));
        }
        let mut hs: Vec<Box<dyn Hist>> = vec![];
        let mut ms: Vec<Model> = vec![];
        for &ci in &tr.nodes {
            let c = tr.ctors.get(ci).ok_or_else(|| Viol::new("harness", "ctor index"))?;
            let h = build(len, c).map_err(|e| Viol::new("harness", format!("generated edge vector rejected: {}", e)))?;
            let edges = h.ranges();
            if edges.len() != len + 1 || edges.iter().any(|e| e.is_nan()) || edges.windows(2).any(|w| w[0] > w[1]) {
                // A constructor that succeeded must have produced LEN+1 non-decreasing edges: every
                // clause of C06 ("the one bin i with lower_i <= x < upper_i") presupposes it.
                // (from_ranges rejects such input itself; with_const_width is only called with
                // finite start < end.)
                if matches!(prop, HProp::C06) {
                    return Err(Viol::new(
                        "Histogram:constructed_edges_not_sorted",
                        format!("{:?} produced the edges {:?}: bins are not disjoint half-open intervals", c, edges),
                    ));
                }
                return Ok(());
            }
            ms.push(Model { edges, counts: vec![0; len] });
            hs.push(h);
        }
        let k = hs.len();
        let mut node_ctor: Vec<usize> = tr.nodes.clone();
        let cap: u128 = 1 << 62;
        for (oi, op) in tr.ops.iter().enumerate() {
            st.sim_events += 1;
            match op {
                HOp::Add { node, x } => {
                    if *node >= k {
                        continue;
                    }
                    let x = f64::from_bits(*x);
                    let want = ms[*node].find(x);
                    probe_sample(st, &ms[*node], x);
                    let before = hs[*node].bins();
                    let h = &mut hs[*node];
                    let res = catch_unwind(AssertUnwindSafe(|| {
                        let f = h.find(x);
                        let a = h.add(x);
                        (f, a)
                    }));
                    let (f, a) = match res {
                        Ok(r) => r,
                        Err(p) => {
                            if matches!(prop, HProp::C06) {
                                return Err(Viol::new(
                                    "Histogram:add_panics",
                                    format!("op {}: find/add({:e}) panicked at {}: {} (edges {:?})", oi, x, last_panic_location(), panic_message(&p), ms[*node].edges),
                                ));
                            }
                            // other properties: treat as rejected sample if state is intact
                            st.bump("probe.add_panicked_outside_C06");
                            (Err(()), Err(()))
                        }
                    };
                    if matches!(prop, HProp::C06) {
                        st.oracle_evals += 1;
                        let in_range = ms[*node].edges[0] <= x && x < ms[*node].edges[len];
                        if in_range != want.is_some() {
                            return Err(Viol::new("harness", "model: in-range and bin search disagree"));
                        }
                        if f.ok() != want {
                            return Err(Viol::new(
                                "Histogram:find",
                                format!("op {}: find({:e}) = {:?} but the half-open bin containing it is {:?} (edges {:?})", oi, x, f, want, ms[*node].edges),
                            ));
                        }
                        if a.is_ok() != want.is_some() {
                            return Err(Viol::new(
                                "Histogram:add_result",
                                format!("op {}: add({:e}) = {:?} but range_min <= x < range_max is {} (edges {:?})", oi, x, a, want.is_some(), ms[*node].edges),
                            ));
                        }
                    }
                    if a.is_ok() {
                        if let Some(i) = want {
                            ms[*node].counts[i] += 1;
                        } else if let Ok(i) = f {
                            // only reachable when prop != C06 and the implementation accepted
                            if i < len {
                                ms[*node].counts[i] += 1;
                            }
                        }
                    }
                    if matches!(prop, HProp::C06) {
                        let after = hs[*node].bins();
                        let want_bins: Vec<u64> = ms[*node].counts.iter().map(|&c| c as u64).collect();
                        if after != want_bins {
                            return Err(Viol::new(
                                "Histogram:add_counts",
                                format!("op {}: add({:e}) changed bins {:?} -> {:?}, expected {:?} (edges {:?})", oi, x, before, after, want_bins, ms[*node].edges),
                            ));
                        }
                    }
                }
                HOp::Merge { dst, src } | HOp::AddAssign { dst, src } => {
                    if *dst >= k || *src >= k {
                        continue;
                    }
                    let is_merge = matches!(op, HOp::Merge { .. });
                    let same = ms[*dst].same_edges(&ms[*src]);
                    // keep the TOTAL count of every histogram below 2^62: the crate sums all bins
                    // in u64 (variance), so larger totals are outside the explored domain
                    if same && ms[*dst].total() + ms[*src].total() >= cap {
                        continue;
                    }
                    let src_h = hs[*src].boxed_clone();
                    let dst_dbg = hs[*dst].debug();
                    let src_dbg = src_h.debug();
                    let total_before = (ms[*dst].total(), ms[*src].total());
                    let h = &mut hs[*dst];
                    let res = catch_unwind(AssertUnwindSafe(|| {
                        if is_merge {
                            h.merge_from(src_h.as_ref())
                        } else {
                            h.add_assign_from(src_h.as_ref())
                        }
                    }));
                    st.oracle_evals += 1;
                    if src_h.debug() != src_dbg {
                        if matches!(prop, HProp::C13 | HProp::C11) {
                            return Err(Viol::new("Histogram:argument_modified", format!("op {}: {:?} modified its argument", oi, op)));
                        }
                    }
                    if same {
                        st.bump(if is_merge { "probe.merge_same_edges" } else { "probe.add_assign_same_edges" });
                        if let Err(p) = res {
                            if matches!(prop, HProp::C13 | HProp::C11) {
                                return Err(Viol::new(
                                    "Histogram:merge_panics_same_edges",
                                    format!("op {}: {:?} panicked although both histograms have identical edges: {}", oi, op, panic_message(&p)),
                                ));
                            }
                            return Ok(());
                        }
                        let srcc = ms[*src].counts.clone();
                        for (a, b) in ms[*dst].counts.iter_mut().zip(srcc.iter()) {
                            *a += *b;
                        }
                        if matches!(prop, HProp::C11) {
                            let got: u128 = hs[*dst].bins().iter().map(|&c| c as u128).sum();
                            if got != total_before.0 + total_before.1 {
                                return Err(Viol::new(
                                    "Histogram:len_additivity",
                                    format!("op {}: total count {} merged with {} gives {}", oi, total_before.0, total_before.1, got),
                                ));
                            }
                        }
                    } else {
                        st.bump("fault.panic_unwind_mismatched_edges");
                        if matches!(prop, HProp::C13) {
                            if res.is_ok() {
                                return Err(Viol::new(
                                    "Histogram:no_panic_on_mismatch",
                                    format!("op {}: {:?} did not panic although the edges differ: {:?} vs {:?}", oi, op, ms[*dst].edges, ms[*src].edges),
                                ));
                            }
                            if hs[*dst].debug() != dst_dbg {
                                return Err(Viol::new(
                                    "Histogram:panic_not_atomic",
                                    format!("op {}: {:?} panicked on mismatching edges but changed its left operand: {} -> {}", oi, op, dst_dbg, hs[*dst].debug()),
                                ));
                            }
                        } else if res.is_ok() {
                            // outside this property: resynchronise the model with whatever happened
                            let b = hs[*dst].bins();
                            for (a, v) in ms[*dst].counts.iter_mut().zip(b.iter()) {
                                *a = *v as u128;
                            }
                        }
                    }
                }
                HOp::Mul { node, k: f } => {
                    if *node >= k {
                        continue;
                    }
                    if ms[*node].total() * (*f as u128) >= cap {
                        continue;
                    }
                    hs[*node].mul_assign(*f);
                    for c in ms[*node].counts.iter_mut() {
                        *c *= *f as u128;
                    }
                    st.bump("probe.mul_assign");
                }
                HOp::Reset { node } => {
                    if *node >= k {
                        continue;
                    }
                    hs[*node].reset();
                    for c in ms[*node].counts.iter_mut() {
                        *c = 0;
                    }
                    st.bump("probe.reset");
                }
                HOp::CloneTo { dst, src } => {
                    if *dst >= k || *src >= k {
                        continue;
                    }
                    if (oi + *dst + *src) % 2 == 0 {
                        hs[*dst] = hs[*src].boxed_clone();
                    } else if dst != src {
                        // Clone::clone_from into an existing histogram (possibly over other edges)
                        let src_h = hs[*src].boxed_clone();
                        hs[*dst].clone_from_other(src_h.as_ref());
                        st.bump("probe.clone_from");
                    }
                    ms[*dst] = ms[*src].clone();
                    node_ctor[*dst] = node_ctor[*src];
                }
                HOp::Migrate { node, times } => {
                    if *node >= k {
                        continue;
                    }
                    let mut cur = hs[*node].boxed_clone();
                    let mut skipped = false;
                    for _ in 0..*times {
                        let dbg = cur.debug();
                        let json = cur.to_json();
                        if crate::framework::nonfinite_state(&dbg, &json, cur.ranges().into_iter()) || json == "null" {
                            // infinite outer edge (outside C18's precondition), or the const-generic
                            // twin, which has no serde support
                            st.bump("probe.checkpoint_nonfinite_skipped");
                            skipped = true;
                            break;
                        }
                        st.bump("fault.migrate");
                        if matches!(prop, HProp::C18) {
                            st.oracle_evals += 1;
                            if cur.debug() != dbg || cur.to_json() != json {
                                return Err(Viol::new("Histogram:serialize_modifies", format!("op {}: serialising changed the histogram", oi)));
                            }
                        }
                        let blob = cur.to_blob(crate::medium::pick(&json));
                        st.bump(crate::medium::key_of_blob(&blob));
                        match cur.from_json_same(&blob) {
                            Ok(h) => {
                                if matches!(prop, HProp::C18) {
                                    if h.debug() != dbg || h.bins() != cur.bins() || !h.ranges().iter().zip(cur.ranges().iter()).all(|(a, b)| same_bits(*a, *b)) {
                                        return Err(Viol::new(
                                            "Histogram:roundtrip_state",
                                            format!("op {}: serde round trip changed the histogram: {} -> {}", oi, dbg, h.debug()),
                                        ));
                                    }
                                }
                                cur = h;
                            }
                            Err(e) => {
                                if matches!(prop, HProp::C18) {
                                    return Err(Viol::new(
                                        "Histogram:restore_parse",
                                        format!("op {}: medium {}: {} json={}", oi, crate::medium::name_of_blob(&blob), e, json),
                                    ));
                                }
                                skipped = true;
                                break;
                            }
                        }
                    }
                    if !skipped {
                        hs[*node] = cur;
                    }
                }
                HOp::Algebra { a, b, c } => {
                    if *a >= k || *b >= k || *c >= k || !matches!(prop, HProp::C13) {
                        continue;
                    }
                    if !(ms[*a].same_edges(&ms[*b]) && ms[*b].same_edges(&ms[*c])) {
                        continue;
                    }
                    if ms[*a].total() + ms[*b].total() + ms[*c].total() >= cap {
                        continue;
                    }
                    st.bump("probe.algebra_triple");
                    st.oracle_evals += 1;
                    let (ha, hb, hc) = (hs[*a].boxed_clone(), hs[*b].boxed_clone(), hs[*c].boxed_clone());
                    // (a+b)+c
                    let mut l = ha.boxed_clone();
                    l.merge_from(hb.as_ref());
                    l.merge_from(hc.as_ref());
                    // a+(b+c)
                    let mut bc = hb.boxed_clone();
                    bc.merge_from(hc.as_ref());
                    let mut r = ha.boxed_clone();
                    r.merge_from(bc.as_ref());
                    if l.bins() != r.bins() {
                        return Err(Viol::new("Histogram:merge_not_associative", format!("op {}: {:?} vs {:?}", oi, l.bins(), r.bins())));
                    }
                    // b+a vs a+b
                    let mut ab = ha.boxed_clone();
                    ab.merge_from(hb.as_ref());
                    let mut ba = hb.boxed_clone();
                    ba.merge_from(ha.as_ref());
                    if ab.bins() != ba.bins() {
                        return Err(Viol::new("Histogram:merge_not_commutative", format!("op {}: {:?} vs {:?}", oi, ab.bins(), ba.bins())));
                    }
                    // merge == +=
                    let mut ab2 = ha.boxed_clone();
                    ab2.add_assign_from(hb.as_ref());
                    if ab.bins() != ab2.bins() {
                        return Err(Viol::new("Histogram:merge_vs_add_assign", format!("op {}: merge {:?} vs += {:?}", oi, ab.bins(), ab2.bins())));
                    }
                    let want: Vec<u64> = (0..len).map(|i| (ms[*a].counts[i] + ms[*b].counts[i] + ms[*c].counts[i]) as u64).collect();
                    if l.bins() != want {
                        return Err(Viol::new("Histogram:merge_counts", format!("op {}: (a+b)+c = {:?} expected {:?}", oi, l.bins(), want)));
                    }
                }
                HOp::FreshIdentity { node } => {
                    if *node >= k || !matches!(prop, HProp::C11) {
                        continue;
                    }
                    st.bump("probe.identity_probe");
                    st.oracle_evals += 1;
                    // "fresh" = a newly constructed histogram over the same edges
                    let mut fresh = match build(len, &tr.ctors[node_ctor[*node]]) {
                        Ok(h) => h,
                        Err(_) => continue,
                    };
                    if !fresh.ranges().iter().zip(ms[*node].edges.iter()).all(|(a, b)| a == b) {
                        continue;
                    }
                    let _ = &mut fresh;
                    let fresh_dbg = fresh.debug();
                    let before = hs[*node].boxed_clone();
                    let mut a = hs[*node].boxed_clone();
                    let r = catch_unwind(AssertUnwindSafe(|| a.merge_from(fresh.as_ref())));
                    if let Err(p) = r {
                        return Err(Viol::new(
                            "Histogram:merge_panics_same_edges",
                            format!("op {}: merging a freshly constructed empty histogram over the same edges {:?} panicked: {}", oi, ms[*node].edges, panic_message(&p)),
                        ));
                    }
                    if a.bins() != before.bins() || a.debug() != before.debug() {
                        return Err(Viol::new(
                            "Histogram:empty_right_identity",
                            format!("op {}: merging an empty histogram changed {:?} into {:?}", oi, before.bins(), a.bins()),
                        ));
                    }
                    if fresh.debug() != fresh_dbg {
                        return Err(Viol::new("Histogram:argument_modified", format!("op {}: merge modified its (empty) argument", oi)));
                    }
                    let mut f2 = fresh.boxed_clone();
                    let r = catch_unwind(AssertUnwindSafe(|| f2.merge_from(before.as_ref())));
                    if let Err(p) = r {
                        return Err(Viol::new(
                            "Histogram:merge_panics_same_edges",
                            format!("op {}: merging into a freshly constructed empty histogram over the same edges panicked: {}", oi, panic_message(&p)),
                        ));
                    }
                    if f2.bins() != before.bins() || f2.debug() != before.debug() {
                        return Err(Viol::new(
                            "Histogram:empty_left_identity",
                            format!("op {}: merging {:?} into an empty histogram gives {:?}", oi, before.bins(), f2.bins()),
                        ));
                    }
                }
            }
            // after every operation, on every node
            for n in 0..k {
                let bins = hs[n].bins();
                let want: Vec<u64> = ms[n].counts.iter().map(|&c| c as u64).collect();
                if bins != want {
                    let class = match prop {
                        HProp::C06 => "Histogram:conservation",
                        HProp::C13 => "Histogram:counts_vs_model",
                        HProp::C11 => "Histogram:len_additivity",
                        HProp::C17 => {
                            // not this property's business: resynchronise
                            for (a, v) in ms[n].counts.iter_mut().zip(bins.iter()) {
                                *a = *v as u128;
                            }
                            continue;
                        }
                        HProp::C18 => "Histogram:restored_continuation",
                    };
                    return Err(Viol::new(
                        class,
                        format!("after op {} {:?}: node {} bins {:?} but the model (bin-wise sums of accepted samples) has {:?}; edges {:?}", oi, op, n, bins, want, ms[n].edges),
                    ));
                }
                let r = hs[n].ranges();
                if !r.iter().zip(ms[n].edges.iter()).all(|(a, b)| same_bits(*a, *b)) {
                    return Err(Viol::new(
                        match prop {
                            HProp::C18 => "Histogram:restored_edges",
                            _ => "Histogram:edges_changed",
                        },
                        format!("after op {} {:?}: node {} edges {:?} expected {:?}", oi, op, n, r, ms[n].edges),
                    ));
                }
            }
            if matches!(prop, HProp::C13) {
                for n in 0..k {
                    views_oracle(oi, hs[n].as_ref(), &ms[n], st)?;
                }
            }
            if matches!(prop, HProp::C17) {
                for n in 0..k {
                    variance_range_oracle(oi, hs[n].as_ref(), &ms[n], st)?;
                }
            }
        }
        Ok(())
    }
}

fn probe_sample(st: &mut Stats, m: &Model, x: f64) {
    if x.is_nan() {
        st.bump("fault.rejected_op_nan");
        return;
    }
    if x.is_infinite() {
        st.bump("probe.sample_infinite");
    }
    let len = m.counts.len();
    if x == m.edges[len] {
        st.bump("probe.sample_eq_range_max");
    }
    let mut on_edge = 0;
    for e in &m.edges {
        if *e == x {
            on_edge += 1;
        }
    }
    if on_edge == 1 {
        st.bump("probe.sample_on_edge");
    } else if on_edge > 1 {
        st.bump("probe.sample_on_repeated_edge");
    }
    if m.edges.iter().any(|e| next_up(*e) == x || next_down(*e) == x) {
        st.bump("probe.sample_one_ulp_from_edge");
    }
    if m.edges[0].is_infinite() || m.edges[len].is_infinite() {
        st.bump("probe.infinite_outer_edge");
    }
    if m.find(x).is_none() {
        st.bump("fault.rejected_op_out_of_range");
    }
}

fn views_oracle(oi: usize, h: &dyn Hist, m: &Model, st: &mut Stats) -> Result<(), Viol> {
    st.oracle_evals += 1;
    let len = m.counts.len();
    let items = h.iter_items();
    let items2 = h.into_iter_items();
    if items.len() != len || items2.len() != len {
        return Err(Viol::new("Histogram:iter_len", format!("after op {}: iter() yields {} items, LEN = {}", oi, items.len(), len)));
    }
    for i in 0..len {
        let ((a, b), c) = items[i];
        let ((a2, b2), c2) = items2[i];
        if !same_bits(a, m.edges[i]) || !same_bits(b, m.edges[i + 1]) || c as u128 != m.counts[i] || !same_bits(a, a2) || !same_bits(b, b2) || c != c2 {
            return Err(Viol::new(
                "Histogram:iter_items",
                format!("after op {}: iter item {} = (({:e},{:e}),{}) expected (({:e},{:e}),{})", oi, i, a, b, c, m.edges[i], m.edges[i + 1], m.counts[i]),
            ));
        }
    }
    // the same items through the standard iterator adaptors
    let k = 1 + (oi % len.max(1));
    let want_nth = items.get(k % len).copied();
    if h.iter_nth(k % len) != want_nth {
        return Err(Viol::new("Histogram:iter_adaptors", format!("after op {}: iter().nth({}) = {:?} expected {:?}", oi, k % len, h.iter_nth(k % len), want_nth)));
    }
    if h.iter_skip(k % len) != items[(k % len)..].to_vec() {
        return Err(Viol::new("Histogram:iter_adaptors", format!("after op {}: iter().skip({}) differs from the tail of iter()", oi, k % len)));
    }
    let stepped: Vec<((f64, f64), u64)> = items.iter().copied().step_by(k).collect();
    if h.iter_step_by(k) != stepped {
        return Err(Viol::new("Histogram:iter_adaptors", format!("after op {}: iter().step_by({}) = {:?} expected {:?}", oi, k, h.iter_step_by(k), stepped)));
    }
    let (cnt_items, last) = h.iter_count_last();
    if cnt_items != len || last != items.last().copied() {
        return Err(Viol::new("Histogram:iter_adaptors", format!("after op {}: iter().count() = {}, last() = {:?}", oi, cnt_items, last)));
    }
    if oi % 4 == 0 {
        if let Err(e) = h.iter_protocol(oi, k) {
            return Err(Viol::new("Histogram:iter_adaptors", format!("after op {}: {}", oi, e)));
        }
    }
    let w = h.widths();
    let c = h.centers();
    let nb = h.normalized_bins();
    let vs = h.variances();
    if w.len() != len || c.len() != len || nb.len() != len || vs.len() != len {
        return Err(Viol::new("Histogram:view_len", format!("after op {}: a derived view does not have LEN items", oi)));
    }
    let total: u128 = m.total();
    for i in 0..len {
        let (lo, hi) = (m.edges[i], m.edges[i + 1]);
        let cnt = m.counts[i] as u64 as f64;
        // derived views: equal up to a couple of roundings of the stated formula (a refactoring such
        // as (a+b)/2 vs 0.5*(a+b) must not alarm); infinities and NaN must match exactly
        let close = |got: f64, want: f64| -> bool {
            if same_bits(got, want) || got == want {
                return true;
            }
            if !got.is_finite() || !want.is_finite() {
                return false;
            }
            (got - want).abs() <= 4.0 * U * want.abs().max(f64::MIN_POSITIVE)
        };
        if !close(w[i], hi - lo) {
            return Err(Viol::new("Histogram:widths", format!("after op {}: widths[{}] = {:e} expected {:e}", oi, i, w[i], hi - lo)));
        }
        if !close(c[i], 0.5 * (lo + hi)) {
            return Err(Viol::new("Histogram:centers", format!("after op {}: centers[{}] = {:e} expected {:e}", oi, i, c[i], 0.5 * (lo + hi))));
        }
        if !close(nb[i], cnt / (hi - lo)) {
            return Err(Viol::new(
                "Histogram:normalized_bins",
                format!("after op {}: normalized_bins[{}] = {:e} expected {:e}", oi, i, nb[i], cnt / (hi - lo)),
            ));
        }
        let v = h.variance(i);
        if !(same_bits(v, vs[i]) || (v - vs[i]).abs() <= 8.0 * U * cnt.max(1.0)) {
            return Err(Viol::new(
                "Histogram:variance_vs_variances",
                format!("after op {}: variance({}) = {:e} but variances()[{}] = {:e}", oi, i, v, i, vs[i]),
            ));
        }
        if total > 0 {
            let t = total as f64;
            let want = cnt * (1.0 - cnt / t);
            if !((v - want).abs() <= 8.0 * U * cnt.max(1.0)) {
                return Err(Viol::new(
                    "Histogram:variance_value",
                    format!("after op {}: variance({}) = {:e} expected count*(1-count/total) = {:e} (count {}, total {})", oi, i, v, want, cnt, t),
                ));
            }
        }
    }
    Ok(())
}

fn variance_range_oracle(oi: usize, h: &dyn Hist, m: &Model, st: &mut Stats) -> Result<(), Viol> {
    let total = m.total();
    if total == 0 {
        return Ok(());
    }
    st.oracle_evals += 1;
    let t = total as f64;
    let vs = h.variances();
    for i in 0..m.counts.len() {
        for (name, v) in [("variance", h.variance(i)), ("variances", vs[i])] {
            // "[0, total/4] up to rounding": a few ulps of the bin count on either side
            let slack = 8.0 * U * (m.counts[i] as f64).max(1.0);
            if !(v >= -slack && v <= t / 4.0 * (1.0 + 4.0 * U) + slack) {
                return Err(Viol::new(
                    format!("Histogram:{}:outside_range", name),
                    format!("after op {}: {}({}) = {:e} outside [0, total/4 = {:e}] (count {}, total {})", oi, name, i, v, t / 4.0, m.counts[i], total),
                ));
            }
        }
    }
    // the same values reached through the iterator adaptors
    let i = oi % m.counts.len();
    for (name, v) in h.variances_via(i) {
        if let Some(v) = v {
            let slack = 8.0 * U * (m.counts.iter().copied().max().unwrap_or(1) as f64).max(1.0);
            if !(v >= -slack && v <= t / 4.0 * (1.0 + 4.0 * U) + slack) {
                return Err(Viol::new("Histogram:variances:outside_range", format!("after op {}: {} = {:e} (i = {}) outside [0, total/4 = {:e}]", oi, name, v, i, t / 4.0)));
            }
        }
    }
    st.bump("probe.nonempty_histogram_variance");
    Ok(())
}

fn refresh(t: &mut HTrace) {
    t.readable = t
        .ctors
        .iter()
        .map(|c| match c {
            Ctor::Ranges(b) => format!("from_ranges({:?})", b.iter().map(|x| f64::from_bits(*x)).collect::<Vec<_>>()),
            Ctor::ConstWidth(a, b) => format!("with_const_width({:e}, {:e})", f64::from_bits(*a), f64::from_bits(*b)),
        })
        .chain(t.ops.iter().filter_map(|o| match o {
            HOp::Add { node, x } => Some(format!("node{}.add({:e})", node, f64::from_bits(*x))),
            _ => None,
        }))
        .take(40)
        .collect();
}

#[derive(Clone, Debug)]
enum HEdit {
    DropOps(usize, usize),
    DropLastNode,
    SmallerLen(usize),
    SetSample(usize, u64),
}

fn h_edits(tr: &HTrace) -> Vec<HEdit> {
    let mut out = vec![];
    let n = tr.ops.len();
    let mut s = n / 2;
    while s >= 1 {
        let mut lo = 0;
        while lo + s <= n {
            out.push(HEdit::DropOps(lo, lo + s));
            lo += s;
        }
        s /= 2;
    }
    if tr.nodes.len() > 1 {
        out.push(HEdit::DropLastNode);
    }
    for &l in LENS.iter() {
        if l < tr.len {
            out.push(HEdit::SmallerLen(l));
        }
    }
    for (i, o) in tr.ops.iter().enumerate() {
        if let HOp::Add { x, .. } = o {
            let xv = f64::from_bits(*x);
            for y in [0.0, 1.0, xv.round()] {
                if !same_bits(xv, y) && y.is_finite() {
                    out.push(HEdit::SetSample(i, y.to_bits()));
                }
            }
        }
    }
    out
}

fn h_apply(tr: &HTrace, e: &HEdit) -> Option<HTrace> {
    let mut t = tr.clone();
    match e {
        HEdit::DropOps(lo, hi) => {
            t.ops.drain(*lo..*hi);
        }
        HEdit::DropLastNode => {
            let last = t.nodes.len() - 1;
            t.nodes.pop();
            t.ops.retain(|o| match o {
                HOp::Add { node, .. } | HOp::Mul { node, .. } | HOp::Reset { node } | HOp::Migrate { node, .. } | HOp::FreshIdentity { node } => *node != last,
                HOp::Merge { dst, src } | HOp::AddAssign { dst, src } | HOp::CloneTo { dst, src } => *dst != last && *src != last,
                HOp::Algebra { a, b, c } => *a != last && *b != last && *c != last,
            });
        }
        HEdit::SmallerLen(l) => {
            t.len = *l;
            for c in t.ctors.iter_mut() {
                if let Ctor::Ranges(b) = c {
                    b.truncate(l + 1);
                }
            }
        }
        HEdit::SetSample(i, bits) => {
            if let HOp::Add { node, .. } = &tr.ops[*i] {
                t.ops[*i] = HOp::Add { node: *node, x: *bits };
            }
        }
    }
    Some(t)
}

impl Scenario for HScenario {
    fn name(&self) -> &'static str {
        self.prop.scen_name()
    }
    fn run(&self, seed: u64, _index: u64, tier: Tier, st: &mut Stats) -> (RunInfo, Option<Failure>) {
        let tr = self.generate(seed, tier);
        let mut key = 0xcbf29ce484222325u64 ^ tr.len as u64;
        let s = serde_json::to_string(&(&tr.ctors, &tr.nodes, &tr.ops)).unwrap();
        for b in s.bytes() {
            key = (key ^ b as u64).wrapping_mul(0x100000001b3);
        }
        let nontrivial = tr.ops.len() >= 2;
        let v = self.execute(&tr, st);
        let f = v.map(|viol| Failure { viol, trace: serde_json::to_value(&tr).unwrap() });
        (RunInfo { key, nontrivial }, f)
    }
    fn replay(&self, trace: &Value, st: &mut Stats) -> Result<Option<Viol>, String> {
        let tr: HTrace = serde_json::from_value(trace.clone()).map_err(|e| format!("bad H trace: {}", e))?;
        Ok(self.execute(&tr, st))
    }
    fn minimise(&self, trace: &Value, class: &str, budget: usize) -> (Value, Viol, usize) {
        let tr: HTrace = match serde_json::from_value(trace.clone()) {
            Ok(t) => t,
            Err(e) => return (trace.clone(), Viol::new("harness", format!("bad trace: {}", e)), 0),
        };
        let (mut t, v, tries) = crate::framework::minimise_typed(
            tr,
            class,
            budget,
            h_edits,
            h_apply,
            |t: &HTrace| t.ops.len() * 4,
            |t| {
                let mut st = Stats::default();
                self.execute(t, &mut st)
            },
        );
        refresh(&mut t);
        (serde_json::to_value(&t).unwrap(), v, tries)
    }
    fn sample(&self, seed: u64, tier: Tier) -> Value {
        let mut best = self.generate(seed, tier);
        for k in 1..100u64 {
            if best.len <= 4 && best.ops.len() <= 12 {
                break;
            }
            best = self.generate(crate::rng::mix(seed, k), tier);
        }
        serde_json::to_value(&best).unwrap()
    }
    fn rule(&self) -> String {
        format!(
            "{}: one run = a cluster of 1..4 histograms (LEN in {{1,2,3,4,7,8,10,64,100,256}}, edge vectors from a lattice with -inf/+inf/repeats, with_const_width or random) driven by a seeded operation schedule (add of edge/neighbour/midpoint/inf/NaN samples, merge, +=, *=, reset, clone, serde migrate, mismatched-edge panics) against a count-vector model; distinct = distinct (constructors, node map, operation list); non-trivial = at least two operations",
            self.prop.scen_name()
        )
    }
}
