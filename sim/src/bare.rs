//! The fourth build configuration: the crate with NEITHER `std` NOR `libm`
//! (`--no-default-features`). Quantile, Skewness, Kurtosis and every accessor that needs a
//! square root are compiled out there, so the R/D/H simulators do not build; this module is
//! a small self-contained simulator over what remains (Min, Max, Mean, Variance, Moments4)
//! and decides, for that configuration only, the parts of C14, C20 and C11 that need no
//! rounding-error oracle:
//!   C14  Min/Max of any history of chunks (every ingestion path) merged in any tree equals
//!        the exact extreme of the multiset (NaN ignored, empty = +-inf, +-0 tie);
//!   C20  a chunk built by any ingestion path is bit-for-bit the chunk built by an add loop;
//!   C11  merging with an empty estimator (either direction) changes no statistic and
//!        lengths add exactly at every merge.
//! It also builds in the other configurations but is only registered in the bare one.
#![allow(dead_code)]

use crate::framework::{last_panic_location, panic_message, Failure, RunInfo, Scenario, Stats, Tier, Viol};
use crate::gen;
use crate::rng::Rng;
use average::{Estimate, Max, Mean, Merge, Min, Moments4, Variance};
use serde::{Deserialize, Serialize};
use serde_json::Value;
use std::panic::{catch_unwind, AssertUnwindSafe};

#[derive(Clone, Copy, Debug, PartialEq, Eq)]
pub enum BProp {
    C14,
    C20,
    C11,
}

#[derive(Serialize, Deserialize, Clone, Copy, Debug, PartialEq, Eq)]
pub enum BPath {
    AddLoop,
    ExtendVal,
    ExtendRef,
    CollectVal,
    CollectRef,
    CollectValLazy,
    ExtendRefLazy,
    DefaultThenAdd,
    FromValueThenAdd,
    CloneThenAdd,
}

const PATHS: [BPath; 10] = [
    BPath::AddLoop,
    BPath::ExtendVal,
    BPath::ExtendRef,
    BPath::CollectVal,
    BPath::CollectRef,
    BPath::CollectValLazy,
    BPath::ExtendRefLazy,
    BPath::DefaultThenAdd,
    BPath::FromValueThenAdd,
    BPath::CloneThenAdd,
];

#[derive(Serialize, Deserialize, Clone, Debug)]
pub struct BChunk {
    pub path: BPath,
    pub data: Vec<u64>,
}

#[derive(Serialize, Deserialize, Clone, Debug)]
pub struct BTrace {
    pub scenario: String,
    pub ty: String,
    pub chunks: Vec<BChunk>,
    /// merge steps: chunk `from` is merged into chunk `into` (`into.merge(&from)`); with
    /// `swap` the operands change places first. Slots are consumed left to right.
    pub merges: Vec<(usize, usize, bool)>,
    #[serde(default)]
    pub readable: Vec<String>,
}

/// iterator that is not fused (see types.rs::Unfused; repeated here because types.rs does
/// not build in this configuration)
struct Unfused<I: Iterator> {
    inner: I,
    done: bool,
    after: u8,
    phantom: I::Item,
}

impl<I: Iterator> Iterator for Unfused<I>
where
    I::Item: Copy,
{
    type Item = I::Item;
    fn next(&mut self) -> Option<I::Item> {
        if !self.done {
            let x = self.inner.next();
            if x.is_none() {
                self.done = true;
            }
            x
        } else if self.after < 3 {
            self.after += 1;
            Some(self.phantom)
        } else {
            None
        }
    }
}

static PHANTOM: f64 = 1234.5;

trait BEst: Clone + Sized {
    const NAME: &'static str;
    const EXTREME: bool;
    fn fresh() -> Self;
    fn fresh_default() -> Self;
    fn push(&mut self, x: f64);
    fn absorb(&mut self, o: &Self);
    fn ext_val<I: Iterator<Item = f64>>(&mut self, it: I);
    fn ext_ref<'a, I: Iterator<Item = &'a f64>>(&mut self, it: I);
    fn coll_val<I: Iterator<Item = f64>>(it: I) -> Self;
    fn coll_ref<'a, I: Iterator<Item = &'a f64>>(it: I) -> Self;
    fn from_value(_x: f64) -> Option<Self> {
        None
    }
    fn stats(&self) -> Vec<(&'static str, f64)>;
    fn count(&self) -> Option<u64>;
}

macro_rules! with_extend {
    () => {
        fn ext_val<I: Iterator<Item = f64>>(&mut self, it: I) {
            Extend::extend(self, it)
        }
        fn ext_ref<'a, I: Iterator<Item = &'a f64>>(&mut self, it: I) {
            Extend::extend(self, it)
        }
    };
}

// Max has no Extend impl: the extend paths fall back to the add loop
macro_rules! without_extend {
    () => {
        fn ext_val<I: Iterator<Item = f64>>(&mut self, it: I) {
            for x in it {
                self.add(x);
            }
        }
        fn ext_ref<'a, I: Iterator<Item = &'a f64>>(&mut self, it: I) {
            for &x in it {
                self.add(x);
            }
        }
    };
}

macro_rules! common {
    ($t:ty) => {
        fn fresh() -> Self {
            <$t>::new()
        }
        fn fresh_default() -> Self {
            <$t as Default>::default()
        }
        fn push(&mut self, x: f64) {
            self.add(x)
        }
        fn absorb(&mut self, o: &Self) {
            self.merge(o)
        }
        fn coll_val<I: Iterator<Item = f64>>(it: I) -> Self {
            it.collect()
        }
        fn coll_ref<'a, I: Iterator<Item = &'a f64>>(it: I) -> Self {
            it.collect()
        }
    };
}

impl BEst for Min {
    const NAME: &'static str = "Min";
    const EXTREME: bool = true;
    common!(Min);
    with_extend!();
    fn from_value(x: f64) -> Option<Self> {
        // as in types.rs: from_value installs its argument as the state, it is not an
        // observation; C14's "NaN is ignored" speaks of observations
        if x.is_nan() {
            None
        } else {
            Some(Min::from_value(x))
        }
    }
    fn stats(&self) -> Vec<(&'static str, f64)> {
        vec![("min", self.min()), ("estimate", self.estimate())]
    }
    fn count(&self) -> Option<u64> {
        None
    }
}

impl BEst for Max {
    const NAME: &'static str = "Max";
    const EXTREME: bool = true;
    common!(Max);
    without_extend!();
    fn from_value(x: f64) -> Option<Self> {
        if x.is_nan() {
            None
        } else {
            Some(Max::from_value(x))
        }
    }
    fn stats(&self) -> Vec<(&'static str, f64)> {
        vec![("max", self.max()), ("estimate", self.estimate())]
    }
    fn count(&self) -> Option<u64> {
        None
    }
}

impl BEst for Mean {
    const NAME: &'static str = "Mean";
    const EXTREME: bool = false;
    common!(Mean);
    with_extend!();
    fn stats(&self) -> Vec<(&'static str, f64)> {
        vec![("mean", self.mean()), ("estimate", self.estimate()), ("is_empty", self.is_empty() as u8 as f64)]
    }
    fn count(&self) -> Option<u64> {
        Some(self.len())
    }
}

impl BEst for Variance {
    const NAME: &'static str = "Variance";
    const EXTREME: bool = false;
    common!(Variance);
    with_extend!();
    fn stats(&self) -> Vec<(&'static str, f64)> {
        vec![
            ("mean", self.mean()),
            ("population_variance", self.population_variance()),
            ("sample_variance", self.sample_variance()),
            ("variance_of_mean", self.variance_of_mean()),
            ("is_empty", self.is_empty() as u8 as f64),
        ]
    }
    fn count(&self) -> Option<u64> {
        Some(self.len())
    }
}

impl BEst for Moments4 {
    const NAME: &'static str = "Moments4";
    const EXTREME: bool = false;
    common!(Moments4);
    with_extend!();
    fn stats(&self) -> Vec<(&'static str, f64)> {
        vec![
            ("mean", self.mean()),
            ("central_moment(2)", self.central_moment(2)),
            ("central_moment(3)", self.central_moment(3)),
            ("central_moment(4)", self.central_moment(4)),
            ("sample_variance", self.sample_variance()),
        ]
    }
    fn count(&self) -> Option<u64> {
        Some(self.len())
    }
}

fn same(a: f64, b: f64, zero_tie: bool) -> bool {
    a.to_bits() == b.to_bits() || (a.is_nan() && b.is_nan()) || (zero_tie && a == 0.0 && b == 0.0)
}

fn build<E: BEst>(path: BPath, xs: &[f64]) -> E {
    match path {
        BPath::AddLoop => {
            let mut e = E::fresh();
            for &x in xs {
                e.push(x);
            }
            e
        }
        BPath::ExtendVal => {
            let mut e = E::fresh();
            e.ext_val(xs.iter().copied());
            e
        }
        BPath::ExtendRef => {
            let mut e = E::fresh();
            e.ext_ref(xs.iter());
            e
        }
        BPath::CollectVal => E::coll_val(xs.iter().copied()),
        BPath::CollectRef => E::coll_ref(xs.iter()),
        BPath::CollectValLazy => E::coll_val(Unfused { inner: xs.iter().copied(), done: false, after: 0, phantom: PHANTOM }),
        BPath::ExtendRefLazy => {
            let mut e = E::fresh();
            e.ext_ref(Unfused { inner: xs.iter(), done: false, after: 0, phantom: &PHANTOM });
            e
        }
        BPath::DefaultThenAdd => {
            let mut e = E::fresh_default();
            for &x in xs {
                e.push(x);
            }
            e
        }
        BPath::FromValueThenAdd => {
            let mut rest = xs;
            let mut e = E::fresh();
            if let Some(&x0) = xs.first() {
                if let Some(v) = E::from_value(x0) {
                    e = v;
                    rest = &xs[1..];
                }
            }
            for &x in rest {
                e.push(x);
            }
            e
        }
        BPath::CloneThenAdd => {
            let k = xs.len() / 2;
            let mut a = E::fresh();
            for &x in &xs[..k] {
                a.push(x);
            }
            let mut e = a.clone();
            for &x in &xs[k..] {
                e.push(x);
            }
            e
        }
    }
}

fn diff<E: BEst>(a: &E, b: &E) -> Option<String> {
    for ((n, x), (_, y)) in a.stats().into_iter().zip(b.stats().into_iter()) {
        if !same(x, y, E::EXTREME) {
            return Some(format!("{} = {:e} (0x{:016x}) vs {:e} (0x{:016x})", n, x, x.to_bits(), y, y.to_bits()));
        }
    }
    if a.count() != b.count() {
        return Some(format!("len {:?} vs {:?}", a.count(), b.count()));
    }
    None
}

fn run_typed<E: BEst>(prop: BProp, tr: &BTrace, st: &mut Stats) -> Result<(), Viol> {
    let chunks: Vec<Vec<f64>> = tr.chunks.iter().map(|c| c.data.iter().map(|b| f64::from_bits(*b)).collect()).collect();
    let mut slots: Vec<Option<(E, Vec<f64>)>> = vec![];
    for (c, xs) in tr.chunks.iter().zip(chunks.iter()) {
        let e: E = build(c.path, xs);
        st.oracle_evals += 1;
        if matches!(prop, BProp::C20 | BProp::C14) {
            let twin: E = build(BPath::AddLoop, xs);
            if let Some(d) = diff(&e, &twin) {
                return Err(Viol::new(format!("Bare:{}:ingestion_path", E::NAME), format!("chunk of {} items built by {:?} differs from the add loop: {}", xs.len(), c.path, d)));
            }
        }
        slots.push(Some((e, xs.clone())));
    }
    let extreme_check = |e: &E, all: &[f64], what: &str| -> Result<(), Viol> {
        if !E::EXTREME || prop != BProp::C14 {
            return Ok(());
        }
        let is_min = E::NAME == "Min";
        let mut want = if is_min { f64::INFINITY } else { f64::NEG_INFINITY };
        for &x in all {
            if !x.is_nan() && ((is_min && x < want) || (!is_min && x > want)) {
                want = x;
            }
        }
        let got = e.stats()[0].1;
        if !same(got, want, true) {
            return Err(Viol::new(format!("Bare:{}:extreme", E::NAME), format!("{}: reports {:e}, exact extreme of the {} observations is {:e}", what, got, all.len(), want)));
        }
        Ok(())
    };
    for (i, s) in slots.iter().enumerate() {
        let (e, xs) = s.as_ref().unwrap();
        extreme_check(e, xs, &format!("chunk {}", i))?;
    }
    for &(from, into, swap) in &tr.merges {
        if from == into || from >= slots.len() || into >= slots.len() || slots[from].is_none() || slots[into].is_none() {
            continue;
        }
        let (b, xb) = slots[from].take().unwrap();
        let (a, xa) = slots[into].take().unwrap();
        let (mut l, xl, r, xr) = if swap { (b, xb, a, xa) } else { (a, xa, b, xb) };
        let before = l.clone();
        l.absorb(&r);
        st.oracle_evals += 1;
        if prop == BProp::C11 {
            if let (Some(nl), Some(nr), Some(n)) = (before.count(), r.count(), l.count()) {
                if n != nl + nr {
                    return Err(Viol::new(format!("Bare:{}:len_additivity", E::NAME), format!("merge of {} and {} observations has len {}", nl, nr, n)));
                }
            }
            if xr.is_empty() {
                st.bump("probe.merge_with_empty_right");
                if let Some(d) = diff(&l, &before) {
                    return Err(Viol::new(format!("Bare:{}:empty_not_identity", E::NAME), format!("a.merge(&empty) changed a: {}", d)));
                }
            }
            if xl.is_empty() {
                st.bump("probe.merge_into_empty_left");
                if let Some(d) = diff(&l, &r) {
                    return Err(Viol::new(format!("Bare:{}:empty_not_identity", E::NAME), format!("empty.merge(&b) differs from b: {}", d)));
                }
            }
        }
        let mut all = xl;
        all.extend_from_slice(&xr);
        extreme_check(&l, &all, "after a merge")?;
        slots[into] = Some((l, all));
    }
    Ok(())
}

pub struct BareScenario {
    pub prop: BProp,
}

const TYPES: [&str; 5] = ["Min", "Max", "Mean", "Variance", "Moments4"];

impl BareScenario {
    fn label(&self) -> &'static str {
        match self.prop {
            BProp::C14 => "B/C14-bare",
            BProp::C20 => "B/C20-bare",
            BProp::C11 => "B/C11-bare",
        }
    }
    fn generate(&self, seed: u64) -> BTrace {
        let mut rng = Rng::new(seed);
        let ty = match self.prop {
            BProp::C14 => TYPES[rng.usize(2)],
            _ => TYPES[rng.usize(TYPES.len())],
        };
        let n = gen::pick_n(&mut rng, 512).min(400);
        let data: Vec<f64> = if ty == "Min" || ty == "Max" { gen::scalar_c14(&mut rng, n) } else { gen::scalar_c01(&mut rng, n).0 };
        let k = 1 + rng.usize(6);
        let mut cuts: Vec<usize> = (0..k - 1).map(|_| rng.usize(n + 1)).collect();
        cuts.push(0);
        cuts.push(n);
        cuts.sort();
        let chunks: Vec<BChunk> = cuts.windows(2).map(|w| BChunk { path: PATHS[rng.usize(PATHS.len())], data: data[w[0]..w[1]].iter().map(|x| x.to_bits()).collect() }).collect();
        let m = chunks.len();
        let mut alive: Vec<usize> = (0..m).collect();
        let mut merges = vec![];
        while alive.len() > 1 {
            let i = rng.usize(alive.len());
            let from = alive.remove(i);
            let into = alive[rng.usize(alive.len())];
            merges.push((from, into, rng.chance(0.5)));
        }
        let mut t = BTrace { scenario: self.label().into(), ty: ty.into(), chunks, merges, readable: vec![] };
        refresh(&mut t);
        t
    }
    fn execute(&self, tr: &BTrace, st: &mut Stats) -> Option<Viol> {
        let r = catch_unwind(AssertUnwindSafe(|| match tr.ty.as_str() {
            "Min" => run_typed::<Min>(self.prop, tr, st),
            "Max" => run_typed::<Max>(self.prop, tr, st),
            "Mean" => run_typed::<Mean>(self.prop, tr, st),
            "Variance" => run_typed::<Variance>(self.prop, tr, st),
            "Moments4" => run_typed::<Moments4>(self.prop, tr, st),
            other => Err(Viol::new("harness", format!("unknown type {}", other))),
        }));
        match r {
            Ok(x) => x.err(),
            Err(p) => {
                let loc = last_panic_location();
                if crate::framework::is_harness_location(&loc) {
                    Some(Viol::new("harness", format!("harness panicked at {}: {}", loc, panic_message(&p))))
                } else {
                    Some(Viol::new(format!("Bare:{}:panic", tr.ty), format!("panicked at {}: {}", loc, panic_message(&p))))
                }
            }
        }
    }
}

fn refresh(t: &mut BTrace) {
    t.readable = t
        .chunks
        .iter()
        .map(|c| format!("{:?}{:?}", c.path, c.data.iter().take(12).map(|b| format!("{:e}", f64::from_bits(*b))).collect::<Vec<_>>()))
        .collect();
}

impl Scenario for BareScenario {
    fn name(&self) -> &'static str {
        self.label()
    }
    fn run(&self, seed: u64, _index: u64, _tier: Tier, st: &mut Stats) -> (RunInfo, Option<Failure>) {
        let tr = self.generate(seed);
        let mut key = 0xcbf29ce484222325u64;
        for c in &tr.chunks {
            key = (key ^ (c.path as u64 + 1)).wrapping_mul(0x100000001b3);
            for d in &c.data {
                key = (key ^ d).wrapping_mul(0x100000001b3);
            }
        }
        for m in &tr.merges {
            key = (key ^ ((m.0 as u64) << 20 | (m.1 as u64) << 1 | m.2 as u64)).wrapping_mul(0x100000001b3);
        }
        st.bump("probe.bare_configuration_run");
        if tr.chunks.iter().any(|c| c.data.is_empty()) {
            st.bump("fault.empty_worker");
        }
        let nontrivial = tr.chunks.len() >= 2;
        let v = self.execute(&tr, st);
        let f = v.map(|viol| Failure { viol, trace: serde_json::to_value(&tr).unwrap() });
        (RunInfo { key, nontrivial }, f)
    }
    fn replay(&self, trace: &Value, st: &mut Stats) -> Result<Option<Viol>, String> {
        let tr: BTrace = serde_json::from_value(trace.clone()).map_err(|e| format!("bad bare trace: {}", e))?;
        Ok(self.execute(&tr, st))
    }
    fn minimise(&self, trace: &Value, class: &str, budget: usize) -> (Value, Viol, usize) {
        let tr: BTrace = match serde_json::from_value(trace.clone()) {
            Ok(t) => t,
            Err(e) => return (trace.clone(), Viol::new("harness", format!("bad trace: {}", e)), 0),
        };
        let (mut t, v, tries) = crate::framework::minimise_typed(
            tr,
            class,
            budget,
            |t: &BTrace| {
                // (chunk, item) removals, last items first; usize::MAX = empty the whole chunk
                let mut e: Vec<(usize, usize)> = vec![];
                for (ci, c) in t.chunks.iter().enumerate() {
                    if c.data.len() > 1 {
                        e.push((ci, usize::MAX));
                    }
                }
                for (ci, c) in t.chunks.iter().enumerate() {
                    for i in (0..c.data.len()).rev() {
                        e.push((ci, i));
                    }
                }
                e
            },
            |t: &BTrace, e: &(usize, usize)| {
                let mut c = t.clone();
                if e.1 == usize::MAX {
                    c.chunks[e.0].data.clear();
                } else {
                    c.chunks[e.0].data.remove(e.1);
                }
                Some(c)
            },
            |t: &BTrace| t.chunks.iter().map(|c| c.data.len()).sum::<usize>(),
            |t| {
                let mut st = Stats::default();
                self.execute(t, &mut st)
            },
        );
        refresh(&mut t);
        (serde_json::to_value(&t).unwrap(), v, tries)
    }
    fn sample(&self, seed: u64, _tier: Tier) -> Value {
        let mut t = self.generate(seed);
        for k in 1..100u64 {
            let n: usize = t.chunks.iter().map(|c| c.data.len()).sum();
            if (3..=12).contains(&n) && t.chunks.len() >= 2 {
                break;
            }
            t = self.generate(crate::rng::mix(seed, k));
        }
        serde_json::to_value(&t).unwrap()
    }
    fn rule(&self) -> String {
        format!(
            "{}: the crate built with neither std nor libm; one run = one of Min, Max{} fed a generated sequence cut into 1-6 chunks, each chunk built by a seeded ingestion path (add loop, extend / collect by value, by reference, from an unfused lazy source, Default, from_value, clone-then-add), then merged in a seeded tree with either operand order; distinct = distinct (paths, data bits, merge list); non-trivial = at least two chunks",
            self.label(),
            if self.prop == BProp::C14 { "" } else { ", Mean, Variance, Moments4" }
        )
    }
}
