//! R: simulated work-stealing reduction.
//!
//! `generate` runs a seeded model of a rayon-style pool (T workers, per-worker
//! deques, join = run left inline / expose right for stealing, LengthSplitter)
//! and records what the pool decided as an explicit `TreeTrace`: the task tree
//! and the global order in which leaves were advanced and joins reduced.
//! `run_tree` then executes a trace against REAL estimator code. Replay and
//! minimisation work on the trace, never on PRNG alignment.
#![allow(dead_code)]

use crate::framework::Viol;
use crate::rng::Rng;
use crate::types::{Est, Path};
use serde::{Deserialize, Serialize};
use std::collections::VecDeque;

#[derive(Serialize, Deserialize, Clone, Debug, PartialEq)]
pub struct Piece {
    pub path: Path,
    pub len: usize,
    /// fault: after this piece the accumulator crashes and is restored from its serde form
    #[serde(default, skip_serializing_if = "is_false")]
    pub restore: bool,
    /// after this piece the accumulator is replaced by a clone of itself (histories with clone)
    #[serde(default, skip_serializing_if = "is_false")]
    pub reclone: bool,
}
fn is_false(b: &bool) -> bool {
    !*b
}

#[derive(Serialize, Deserialize, Clone, Debug, PartialEq)]
pub enum Node {
    Leaf {
        pieces: Vec<Piece>,
    },
    Join {
        left: usize,
        right: usize,
        /// the right half was stolen by another simulated worker (informational)
        #[serde(default, skip_serializing_if = "is_false")]
        stolen: bool,
        /// execute `right.merge(&left)` instead of `left.merge(&right)` (only C14 allows it)
        #[serde(default, skip_serializing_if = "is_false")]
        swap: bool,
        /// observations added to the merged estimator afterwards (histories of add AND merge)
        #[serde(default, skip_serializing_if = "Vec::is_empty")]
        tail: Vec<Piece>,
        /// fault: crash + restore of the merged accumulator
        #[serde(default, skip_serializing_if = "is_false")]
        restore: bool,
    },
}

#[derive(Serialize, Deserialize, Clone, Debug, PartialEq)]
pub struct TreeTrace {
    pub nodes: Vec<Node>,
    pub root: usize,
    /// global schedule: node ids in the order the simulated pool advanced them.
    /// A leaf entry ingests that leaf's next piece, a join entry reduces (if both
    /// halves are finished). Entries that cannot act are skipped; whatever is left
    /// when the list ends is finished depth-first. Hence ANY list is a valid schedule.
    pub order: Vec<u32>,
}

impl TreeTrace {
    pub fn single_leaf(n: usize) -> TreeTrace {
        TreeTrace {
            nodes: vec![Node::Leaf { pieces: vec![Piece { path: Path::AddLoop, len: n, restore: false, reclone: false }] }],
            root: 0,
            order: vec![],
        }
    }
    pub fn len_of(&self, id: usize) -> usize {
        match &self.nodes[id] {
            Node::Leaf { pieces } => pieces.iter().map(|p| p.len).sum(),
            Node::Join { left, right, tail, .. } => {
                self.len_of(*left) + self.len_of(*right) + tail.iter().map(|p| p.len).sum::<usize>()
            }
        }
    }
    pub fn total_len(&self) -> usize {
        self.len_of(self.root)
    }
    /// [lo,hi) of every node, by in-order layout
    pub fn layout(&self) -> Vec<(usize, usize)> {
        let mut out = vec![(0usize, 0usize); self.nodes.len()];
        fn go(t: &TreeTrace, id: usize, lo: usize, out: &mut Vec<(usize, usize)>) -> usize {
            match &t.nodes[id] {
                Node::Leaf { pieces } => {
                    let hi = lo + pieces.iter().map(|p| p.len).sum::<usize>();
                    out[id] = (lo, hi);
                    hi
                }
                Node::Join { left, right, tail, .. } => {
                    let m = go(t, *left, lo, out);
                    let h = go(t, *right, m, out);
                    let hi = h + tail.iter().map(|p| p.len).sum::<usize>();
                    out[id] = (lo, hi);
                    hi
                }
            }
        }
        go(self, self.root, 0, &mut out);
        out
    }
    pub fn n_leaves(&self) -> usize {
        self.reachable().iter().filter(|&&i| matches!(self.nodes[i], Node::Leaf { .. })).count()
    }
    pub fn n_joins(&self) -> usize {
        self.reachable().iter().filter(|&&i| matches!(self.nodes[i], Node::Join { .. })).count()
    }
    pub fn reachable(&self) -> Vec<usize> {
        let mut v = vec![];
        let mut st = vec![self.root];
        while let Some(i) = st.pop() {
            v.push(i);
            if let Node::Join { left, right, .. } = &self.nodes[i] {
                st.push(*right);
                st.push(*left);
            }
        }
        v
    }
    pub fn depth(&self) -> usize {
        fn go(t: &TreeTrace, id: usize) -> usize {
            match &t.nodes[id] {
                Node::Leaf { .. } => 0,
                Node::Join { left, right, .. } => 1 + go(t, *left).max(go(t, *right)),
            }
        }
        go(self, self.root)
    }
    /// hash of the shape: bracketing + chunk lengths (+ tails), not of paths/order
    pub fn shape_hash(&self) -> u64 {
        fn go(t: &TreeTrace, id: usize, h: &mut u64) {
            let mixin = |h: &mut u64, v: u64| {
                *h = (*h ^ v).wrapping_mul(0x100000001b3).rotate_left(23) ^ 0x9E3779B97F4A7C15;
            };
            match &t.nodes[id] {
                Node::Leaf { pieces } => {
                    mixin(h, 1);
                    mixin(h, pieces.iter().map(|p| p.len).sum::<usize>() as u64);
                }
                Node::Join { left, right, tail, swap, .. } => {
                    mixin(h, 2 + *swap as u64);
                    go(t, *left, h);
                    go(t, *right, h);
                    mixin(h, 7 + tail.iter().map(|p| p.len).sum::<usize>() as u64);
                }
            }
        }
        let mut h = 0xcbf29ce484222325u64;
        go(self, self.root, &mut h);
        h
    }
    pub fn has_restores(&self) -> bool {
        self.nodes.iter().any(|n| match n {
            Node::Leaf { pieces } => pieces.iter().any(|p| p.restore),
            Node::Join { tail, restore, .. } => *restore || tail.iter().any(|p| p.restore),
        })
    }
    /// structural sanity (replay files may have been edited by the minimiser)
    pub fn validate(&self) -> Result<(), String> {
        if self.root >= self.nodes.len() {
            return Err("root out of range".into());
        }
        let mut seen = vec![false; self.nodes.len()];
        let mut st = vec![self.root];
        while let Some(i) = st.pop() {
            if i >= self.nodes.len() {
                return Err("child out of range".into());
            }
            if seen[i] {
                return Err("node shared or cyclic".into());
            }
            seen[i] = true;
            if let Node::Join { left, right, .. } = &self.nodes[i] {
                st.push(*left);
                st.push(*right);
            }
        }
        Ok(())
    }
}

// ---------------------------------------------------------------------------------
// generation: the simulated pool
// ---------------------------------------------------------------------------------

#[derive(Clone, Copy, Debug, PartialEq, Eq, Hash, Serialize, Deserialize)]
pub enum Policy {
    /// rayon's LengthSplitter (the faithful one)
    Length,
    /// random composition into chunks (empty ones allowed) x random bracketing
    Composition,
    /// uniform random split point in [lo,hi] at every task
    RandomSplit,
    LeftChain,
    RightChain,
    Balanced,
    /// a few very unequal merges: 1..3 items (or a thousandth of the range) split off one end,
    /// the large remainder split further or summarised in one leaf
    Lopsided,
    /// no split at all: the sequential, single-pass execution
    Single,
}

#[derive(Clone, Debug)]
pub struct GenCfg {
    pub n: usize,
    pub threads: usize,
    pub min_len: usize,
    pub max_len: usize,
    pub policy: Policy,
    /// the root join was injected from outside the pool (left child sees migrated=true)
    pub injected_root: bool,
    /// PCT-style priorities instead of uniform worker choice: number of change points
    pub pct: Option<usize>,
    pub stall_rate: f64,
    /// which ingestion paths leaves may use
    pub paths: PathMix,
    /// max pieces per leaf (scheduling granularity)
    pub max_pieces: usize,
    /// probability that a join gets a tail of later adds (histories of add and merge)
    pub tail_rate: f64,
    /// probability of reducing in swapped argument order (C14 only)
    pub swap_rate: f64,
    /// probability of a crash/restore fault after a piece / a join
    pub restore_rate: f64,
    /// probability that the accumulator is replaced by its clone after a piece
    pub reclone_rate: f64,
}

#[derive(Clone, Copy, Debug, PartialEq, Eq)]
pub enum PathMix {
    AddOnly,
    All,
    /// add loop + from_value roots (C14)
    WithFromValue,
}

#[derive(Clone, Debug, Default)]
pub struct GenStats {
    pub ticks: u64,
    pub steals: u64,
    pub popped_own: u64,
    pub stalls: u64,
    pub idle_ticks: u64,
    pub splits: u64,
    pub leaves: u64,
    pub empty_leaves: u64,
    pub one_item_leaves: u64,
    pub tails: u64,
    pub swaps: u64,
    pub restores: u64,
}

impl GenStats {
    pub fn add(&mut self, o: &GenStats) {
        self.ticks += o.ticks;
        self.steals += o.steals;
        self.popped_own += o.popped_own;
        self.stalls += o.stalls;
        self.idle_ticks += o.idle_ticks;
        self.splits += o.splits;
        self.leaves += o.leaves;
        self.empty_leaves += o.empty_leaves;
        self.one_item_leaves += o.one_item_leaves;
        self.tails += o.tails;
        self.swaps += o.swaps;
        self.restores += o.restores;
    }
}

/// pre-decided plan for the non-faithful policies
#[derive(Clone, Debug)]
enum Plan {
    Leaf,
    Split { mid: usize, tail: usize, l: Box<Plan>, r: Box<Plan> },
}

fn plan_composition(rng: &mut Rng, n: usize, tail_rate: f64) -> Plan {
    // choose k chunks (some possibly empty), then a random bracketing over them
    let k = if rng.chance(0.15) { 1 } else { 1 + rng.usize((n + 2).min(12)) };
    let mut cuts: Vec<usize> = (0..k - 1).map(|_| rng.usize(n + 1)).collect();
    cuts.sort();
    let mut bounds = vec![0];
    bounds.extend(cuts);
    bounds.push(n);
    fn bracket(rng: &mut Rng, b: &[usize], tail_rate: f64) -> Plan {
        // b = boundaries of >= 1 chunks
        let chunks = b.len() - 1;
        if chunks == 1 {
            return Plan::Leaf;
        }
        // optional tail: the last chunk is added after the merge instead of merged
        if chunks >= 3 && rng.chance(tail_rate) {
            let inner = &b[..b.len() - 1];
            let tail = b[b.len() - 1] - b[b.len() - 2];
            if let Plan::Split { mid, l, r, .. } = bracket(rng, inner, 0.) {
                return Plan::Split { mid, tail, l, r };
            }
        }
        let s = 1 + rng.usize(chunks - 1); // left gets chunks 0..s
        let l = bracket(rng, &b[..=s], tail_rate);
        let r = bracket(rng, &b[s..], tail_rate);
        Plan::Split { mid: b[s] - b[0], tail: 0, l: Box::new(l), r: Box::new(r) }
    }
    bracket(rng, &bounds, tail_rate)
}

fn plan_random_split(rng: &mut Rng, n: usize, depth: usize) -> Plan {
    if depth > 40 || (n == 0 && rng.chance(0.7)) || rng.chance(0.25) {
        return Plan::Leaf;
    }
    let mid = rng.usize(n + 1);
    Plan::Split {
        mid,
        tail: 0,
        l: Box::new(plan_random_split(rng, mid, depth + 1)),
        r: Box::new(plan_random_split(rng, n - mid, depth + 1)),
    }
}

fn plan_chain(n: usize, left: bool) -> Plan {
    // iterative to avoid deep recursion on construction
    let mut p = Plan::Leaf;
    if n <= 1 {
        return p;
    }
    if left {
        // ((((x1 x2) x3) x4) ...)
        for k in 2..=n {
            p = Plan::Split { mid: k - 1, tail: 0, l: Box::new(p), r: Box::new(Plan::Leaf) };
        }
    } else {
        for _ in 2..=n {
            p = Plan::Split { mid: 1, tail: 0, l: Box::new(Plan::Leaf), r: Box::new(p) };
        }
    }
    p
}

fn plan_lopsided(rng: &mut Rng, n: usize, depth: usize) -> Plan {
    if n < 2 || depth > 6 {
        return Plan::Leaf;
    }
    let small = match rng.below(4) {
        0 => 1,
        1 => 2,
        2 => 1 + rng.usize(3),
        _ => 1 + n / (1000 + rng.usize(5000)),
    }
    .min(n - 1);
    let small_left = rng.chance(0.5);
    let big_n = n - small;
    let big = match rng.below(4) {
        0 => Plan::Leaf,
        1 => plan_balanced(big_n.min(64)).clone_scaled(big_n),
        _ => plan_lopsided(rng, big_n, depth + 1),
    };
    if small_left {
        Plan::Split { mid: small, tail: 0, l: Box::new(Plan::Leaf), r: Box::new(big) }
    } else {
        Plan::Split { mid: big_n, tail: 0, l: Box::new(big), r: Box::new(Plan::Leaf) }
    }
}

impl Plan {
    /// a balanced plan over `n` items with at most ~64 leaves
    fn clone_scaled(&self, n: usize) -> Plan {
        fn go(n: usize, leaves: usize) -> Plan {
            if leaves <= 1 || n <= 1 {
                return Plan::Leaf;
            }
            let mid = n / 2;
            Plan::Split { mid, tail: 0, l: Box::new(go(mid, leaves / 2)), r: Box::new(go(n - mid, leaves - leaves / 2)) }
        }
        let _ = self;
        go(n, 16)
    }
}

fn plan_balanced(n: usize) -> Plan {
    if n <= 1 {
        return Plan::Leaf;
    }
    let mid = n / 2;
    Plan::Split { mid, tail: 0, l: Box::new(plan_balanced(mid)), r: Box::new(plan_balanced(n - mid)) }
}

#[derive(Clone)]
struct Task {
    node: usize, // slot in trace.nodes reserved for this task
    lo: usize,
    hi: usize,
    splits: usize,
    migrated: bool,
    plan: Option<Plan>,
}

enum Frame {
    Run(Task),
    Leaf { node: usize, pieces_left: usize },
    JoinWait { node: usize, right_job: usize, left_done: bool },
}

#[derive(PartialEq)]
enum JobState {
    Queued,
    Running,
    Done,
}

struct Job {
    task: Option<Task>,
    state: JobState,
}

fn gen_pieces(rng: &mut Rng, len: usize, cfg: &GenCfg, first: bool, st: &mut GenStats) -> Vec<Piece> {
    let k = if len == 0 {
        if rng.chance(0.5) { 0 } else { 1 }
    } else {
        1 + rng.usize(cfg.max_pieces.max(1).min(len))
    };
    let mut cuts: Vec<usize> = (0..k.saturating_sub(1)).map(|_| rng.usize(len + 1)).collect();
    cuts.sort();
    let mut b = vec![0usize];
    b.extend(cuts);
    b.push(len);
    let mut out = vec![];
    for i in 0..k {
        let l = b[i + 1] - b[i];
        let path = match cfg.paths {
            PathMix::AddOnly => Path::AddLoop,
            PathMix::All => {
                if i == 0 && first {
                    rng.pick(&[
                        Path::AddLoop,
                        Path::ExtendVal,
                        Path::ExtendRef,
                        Path::CollectVal,
                        Path::CollectRef,
                        Path::DefaultCtor,
                        Path::CollectValLazy,
                        Path::CollectRefLazy,
                        Path::ExtendValLazy,
                        Path::ExtendRefLazy,
                    ])
                } else {
                    rng.pick(&[Path::AddLoop, Path::ExtendVal, Path::ExtendRef, Path::ExtendValLazy, Path::ExtendRefLazy, Path::ExtendDuringUnwind])
                }
            }
            PathMix::WithFromValue => {
                if i == 0 && first {
                    rng.pick(&[
                        Path::AddLoop,
                        Path::FromValue,
                        Path::CollectVal,
                        Path::ExtendRef,
                        Path::CollectRef,
                        Path::DefaultCtor,
                        Path::CollectValLazy,
                        Path::CollectRefLazy,
                        Path::ExtendValLazy,
                    ])
                } else {
                    rng.pick(&[Path::AddLoop, Path::ExtendVal, Path::ExtendRef, Path::ExtendPanicsThenRetry])
                }
            }
        };
        let restore = cfg.restore_rate > 0. && rng.chance(cfg.restore_rate);
        if restore {
            st.restores += 1;
        }
        let reclone = cfg.reclone_rate > 0. && rng.chance(cfg.reclone_rate);
        out.push(Piece { path, len: l, restore, reclone });
    }
    out
}

/// Run the simulated pool once; returns the trace it produced.
pub fn generate(rng: &mut Rng, cfg: &GenCfg) -> (TreeTrace, GenStats) {
    let t = cfg.threads.max(1);
    let mut st = GenStats::default();
    let mut nodes: Vec<Option<Node>> = vec![None];
    let mut order: Vec<u32> = vec![];
    let plan = match cfg.policy {
        Policy::Length => None,
        Policy::Composition => Some(plan_composition(rng, cfg.n, cfg.tail_rate)),
        Policy::RandomSplit => Some(plan_random_split(rng, cfg.n, 0)),
        Policy::LeftChain => Some(plan_chain(cfg.n, true)),
        Policy::RightChain => Some(plan_chain(cfg.n, false)),
        Policy::Balanced => Some(plan_balanced(cfg.n)),
        Policy::Lopsided => Some(plan_lopsided(rng, cfg.n, 0)),
        Policy::Single => Some(Plan::Leaf),
    };
    let min_len = cfg.min_len.max(1);
    let init_splits = t.max(cfg.n / cfg.max_len.max(1));
    let root = Task { node: 0, lo: 0, hi: cfg.n, splits: init_splits, migrated: false, plan };
    let mut stacks: Vec<Vec<Frame>> = (0..t).map(|_| vec![]).collect();
    let mut deques: Vec<VecDeque<usize>> = (0..t).map(|_| VecDeque::new()).collect();
    let mut jobs: Vec<Job> = vec![];
    let mut node_done: Vec<bool> = vec![false];
    let mut stalled: Vec<u32> = vec![0; t];
    // PCT: a worker that could not make progress is passed over until somebody else did
    let mut blocked: Vec<bool> = vec![false; t];
    let w0 = rng.usize(t);
    stacks[w0].push(Frame::Run(root));
    // PCT priorities
    let mut prio: Vec<u32> = (0..t as u32).collect();
    rng.shuffle(&mut prio);
    let change_every = cfg.pct.map(|d| ((cfg.n as u64 * 3 + 8) / (d as u64 + 1)).max(1));

    let max_ticks = 200_000 + 64 * cfg.n as u64;
    while !node_done[0] {
        st.ticks += 1;
        if st.ticks > max_ticks {
            panic!("simulated pool did not terminate (harness bug)");
        }
        if let Some(ce) = change_every {
            if st.ticks % ce == 0 {
                let i = rng.usize(t);
                let j = rng.usize(t);
                prio.swap(i, j);
            }
        }
        // choose the acting worker
        let w = if cfg.pct.is_some() {
            // highest priority worker that is not stalled
            let mut best = None;
            for i in 0..t {
                if stalled[i] > 0 || blocked[i] {
                    continue;
                }
                let has = !stacks[i].is_empty() || deques.iter().any(|d| !d.is_empty());
                if has && best.map_or(true, |b: usize| prio[i] > prio[b]) {
                    best = Some(i);
                }
            }
            match best {
                Some(b) => b,
                None => {
                    for s in stalled.iter_mut() {
                        *s = s.saturating_sub(1);
                    }
                    for b in blocked.iter_mut() {
                        *b = false;
                    }
                    continue;
                }
            }
        } else {
            rng.usize(t)
        };
        if stalled[w] > 0 {
            stalled[w] -= 1;
            continue;
        }
        if cfg.stall_rate > 0. && t > 1 && rng.chance(cfg.stall_rate) {
            stalled[w] = 1 + rng.usize(8) as u32;
            st.stalls += 1;
            continue;
        }
        // one step of worker w
        let idle_before = st.idle_ticks;
        let top = stacks[w].pop();
        match top {
            None => {
                // idle: steal the oldest job of a random victim
                let victims: Vec<usize> = (0..t).filter(|&v| v != w && !deques[v].is_empty()).collect();
                if victims.is_empty() {
                    st.idle_ticks += 1;
                    blocked[w] = true;
                    continue;
                }
                let v = victims[rng.usize(victims.len())];
                let j = deques[v].pop_front().unwrap();
                st.steals += 1;
                jobs[j].state = JobState::Running;
                let mut task = jobs[j].task.take().unwrap();
                task.migrated = true;
                stacks[w].push(Frame::Run(task));
            }
            Some(Frame::Run(mut task)) => {
                let len = task.hi - task.lo;
                // split decision
                let decision: Option<(usize, usize, Option<Plan>, Option<Plan>)> = match task.plan.take() {
                    None => {
                        let ok = len / 2 >= min_len
                            && if task.migrated {
                                task.splits = t.max(task.splits / 2);
                                true
                            } else if task.splits > 0 {
                                task.splits /= 2;
                                true
                            } else {
                                false
                            };
                        if ok { Some((len / 2, 0, None, None)) } else { None }
                    }
                    Some(Plan::Leaf) => None,
                    Some(Plan::Split { mid, tail, l, r }) => Some((mid, tail, Some(*l), Some(*r))),
                };
                match decision {
                    None => {
                        st.leaves += 1;
                        if len == 0 {
                            st.empty_leaves += 1;
                        }
                        if len == 1 {
                            st.one_item_leaves += 1;
                        }
                        let pieces = gen_pieces(rng, len, cfg, true, &mut st);
                        let k = pieces.len();
                        nodes[task.node] = Some(Node::Leaf { pieces });
                        if k == 0 {
                            order.push(task.node as u32);
                            finish_node(task.node, &mut node_done);
                            notify(&mut stacks, &mut jobs, task.node);
                        } else {
                            stacks[w].push(Frame::Leaf { node: task.node, pieces_left: k });
                        }
                    }
                    Some((mid, tail_len, lp, rp)) => {
                        st.splits += 1;
                        let faithful = lp.is_none() && cfg.policy == Policy::Length;
                        let ln = nodes.len();
                        nodes.push(None);
                        node_done.push(false);
                        let rn = nodes.len();
                        nodes.push(None);
                        node_done.push(false);
                        let inner_hi = task.hi - tail_len;
                        let left = Task {
                            node: ln,
                            lo: task.lo,
                            hi: task.lo + mid,
                            splits: task.splits,
                            migrated: faithful && cfg.injected_root && task.node == 0,
                            plan: if faithful { None } else { lp.or(Some(Plan::Leaf)) },
                        };
                        let right = Task {
                            node: rn,
                            lo: task.lo + mid,
                            hi: inner_hi,
                            splits: task.splits,
                            migrated: false,
                            plan: if faithful { None } else { rp.or(Some(Plan::Leaf)) },
                        };
                        let tail = if tail_len > 0 {
                            st.tails += 1;
                            let mut c2 = cfg.clone();
                            if c2.paths != PathMix::AddOnly {
                                c2.paths = PathMix::All;
                            }
                            gen_pieces(rng, tail_len, &c2, false, &mut st)
                        } else {
                            vec![]
                        };
                        let swap = cfg.swap_rate > 0. && rng.chance(cfg.swap_rate);
                        if swap {
                            st.swaps += 1;
                        }
                        let restore = cfg.restore_rate > 0. && rng.chance(cfg.restore_rate);
                        if restore {
                            st.restores += 1;
                        }
                        nodes[task.node] = Some(Node::Join { left: ln, right: rn, stolen: false, swap, tail, restore });
                        let j = jobs.len();
                        jobs.push(Job { task: Some(right), state: JobState::Queued });
                        deques[w].push_back(j);
                        stacks[w].push(Frame::JoinWait { node: task.node, right_job: j, left_done: false });
                        stacks[w].push(Frame::Run(left));
                    }
                }
            }
            Some(Frame::Leaf { node, pieces_left }) => {
                order.push(node as u32);
                if pieces_left > 1 {
                    stacks[w].push(Frame::Leaf { node, pieces_left: pieces_left - 1 });
                } else {
                    finish_node(node, &mut node_done);
                    notify(&mut stacks, &mut jobs, node);
                }
            }
            Some(Frame::JoinWait { node, right_job, left_done }) => {
                let (lnode, rnode) = match nodes[node].as_ref().unwrap() {
                    Node::Join { left, right, .. } => (*left, *right),
                    _ => unreachable!(),
                };
                let left_done = left_done || node_done[lnode];
                if !left_done {
                    // cannot happen: the left task sits above us on this stack
                    stacks[w].push(Frame::JoinWait { node, right_job, left_done });
                    continue;
                }
                match jobs[right_job].state {
                    JobState::Queued => {
                        // still in our own deque: pop it back, run inline, not migrated
                        let pos = deques[w].iter().rposition(|&j| j == right_job).expect("own job in own deque");
                        deques[w].remove(pos);
                        st.popped_own += 1;
                        jobs[right_job].state = JobState::Running;
                        let task = jobs[right_job].task.take().unwrap();
                        stacks[w].push(Frame::JoinWait { node, right_job, left_done: true });
                        stacks[w].push(Frame::Run(task));
                    }
                    JobState::Running if !node_done[rnode] => {
                        // stolen and not finished: steal something else meanwhile
                        if let Some(Node::Join { stolen, .. }) = nodes[node].as_mut() {
                            *stolen = true;
                        }
                        stacks[w].push(Frame::JoinWait { node, right_job, left_done: true });
                        let victims: Vec<usize> = (0..t).filter(|&v| !deques[v].is_empty()).collect();
                        if victims.is_empty() {
                            st.idle_ticks += 1;
                            blocked[w] = true;
                        } else {
                            let v = victims[rng.usize(victims.len())];
                            // own deque: pop newest (LIFO); other: steal oldest
                            let j = if v == w { deques[v].pop_back().unwrap() } else { deques[v].pop_front().unwrap() };
                            if v != w {
                                st.steals += 1;
                            }
                            jobs[j].state = JobState::Running;
                            let mut task = jobs[j].task.take().unwrap();
                            task.migrated = v != w;
                            stacks[w].push(Frame::Run(task));
                        }
                    }
                    _ => {
                        // both halves finished: reduce (and ingest the tail piece by piece)
                        let tail_pieces = match nodes[node].as_ref().unwrap() {
                            Node::Join { tail, .. } => tail.len(),
                            _ => 0,
                        };
                        for _ in 0..=tail_pieces {
                            order.push(node as u32);
                        }
                        finish_node(node, &mut node_done);
                        notify(&mut stacks, &mut jobs, node);
                    }
                }
            }
        }
        if st.idle_ticks == idle_before {
            for b in blocked.iter_mut() {
                *b = false;
            }
        }
    }
    let nodes: Vec<Node> = nodes.into_iter().map(|n| n.expect("every reserved node was decided")).collect();
    (TreeTrace { nodes, root: 0, order }, st)
}

fn finish_node(node: usize, done: &mut Vec<bool>) {
    done[node] = true;
}

fn notify(_stacks: &mut Vec<Vec<Frame>>, jobs: &mut Vec<Job>, _node: usize) {
    // completion is observed through node_done by the waiting JoinWait frame;
    // mark finished jobs so that Running+done is distinguishable
    for j in jobs.iter_mut() {
        if j.state == JobState::Running && j.task.is_none() {
            // state stays Running until its node is done; JoinWait checks node_done
        }
    }
}

// ---------------------------------------------------------------------------------
// execution against real estimator code
// ---------------------------------------------------------------------------------

/// What an oracle sees while a trace executes.
pub trait Hooks<E: Est> {
    /// a leaf has ingested all its pieces
    fn leaf_done(&mut self, _id: usize, _range: (usize, usize), _acc: &E) -> Result<(), Viol> {
        Ok(())
    }
    /// `into.merge(&arg)` happened; `before` = `into` before the call, `arg_debug_before`
    /// = Debug of the argument before the call
    fn merged(
        &mut self,
        _id: usize,
        _before: &E,
        _arg: &E,
        _arg_debug_before: &str,
        _after: &E,
    ) -> Result<(), Viol> {
        Ok(())
    }
    /// a node (join incl. tail) is complete
    fn node_done(&mut self, _id: usize, _range: (usize, usize), _acc: &E) -> Result<(), Viol> {
        Ok(())
    }
    /// crash/restore fault applied: before and after the serde round trip
    fn restored(&mut self, _id: usize, _before: &E, _json: &str, _after: &E) -> Result<(), Viol> {
        Ok(())
    }
    fn wants_merge_details(&self) -> bool {
        false
    }
    fn restore_skipped(&mut self, _id: usize) {}
}

pub struct NoHooks;
impl<E: Est> Hooks<E> for NoHooks {}

enum Slot<E> {
    Pending { acc: Option<E>, next_piece: usize, pos: usize },
    JoinPending { merged: Option<E>, next_tail: usize, pos: usize },
    Done(Option<E>),
}

pub struct RunCfg {
    /// apply the crash/restore faults recorded in the trace
    pub apply_restores: bool,
}

/// Execute a trace. Returns the root estimator.
pub fn run_tree<E: Est, H: Hooks<E>>(
    tree: &TreeTrace,
    data: &[E::Item],
    cfg: &RunCfg,
    hooks: &mut H,
) -> Result<E, Viol> {
    let layout = tree.layout();
    assert_eq!(layout[tree.root].1, data.len(), "trace and data length disagree");
    let mut slots: Vec<Slot<E>> = tree
        .nodes
        .iter()
        .enumerate()
        .map(|(i, n)| match n {
            Node::Leaf { .. } => Slot::Pending { acc: Some(E::fresh()), next_piece: 0, pos: layout[i].0 },
            Node::Join { .. } => Slot::JoinPending { merged: None, next_tail: 0, pos: 0 },
        })
        .collect();

    fn restore<E: Est, H: Hooks<E>>(id: usize, acc: E, hooks: &mut H) -> Result<E, Viol> {
        let json = acc.to_json();
        if crate::framework::nonfinite_state(&acc.debug(), &json, acc.stats_vec().into_iter().map(|s| s.1)) {
            // a non-finite field: outside C18's precondition (JSON cannot carry it)
            hooks.restore_skipped(id);
            return Ok(acc);
        }
        let blob = acc.to_blob(crate::medium::pick(&json));
        let back = E::from_json(&blob).map_err(|e| {
            Viol::new(
                format!("{}:restore_parse", E::NAME),
                format!("serialised state does not deserialise from medium {}: {} json={}", crate::medium::name_of_blob(&blob), e, json),
            )
        })?;
        hooks.restored(id, &acc, &json, &back)?;
        Ok(back)
    }

    // one step of node `id`; returns true if something happened
    fn step<E: Est, H: Hooks<E>>(
        id: usize,
        tree: &TreeTrace,
        layout: &[(usize, usize)],
        data: &[E::Item],
        cfg: &RunCfg,
        slots: &mut Vec<Slot<E>>,
        hooks: &mut H,
    ) -> Result<bool, Viol> {
        match &tree.nodes[id] {
            Node::Leaf { pieces } => {
                let (mut acc, next_piece, pos) = match &mut slots[id] {
                    Slot::Pending { acc, next_piece, pos } => (acc.take().unwrap(), *next_piece, *pos),
                    _ => return Ok(false),
                };
                let mut np = next_piece;
                let mut p = pos;
                if np < pieces.len() {
                    let pc = &pieces[np];
                    acc.ingest(pc.path, &data[p..p + pc.len], np == 0);
                    p += pc.len;
                    np += 1;
                    if pc.restore && cfg.apply_restores {
                        acc = restore(id, acc, hooks)?;
                    }
                    if pc.reclone {
                        let c = acc.clone();
                        drop(acc);
                        acc = c;
                    }
                }
                if np >= pieces.len() {
                    hooks.leaf_done(id, layout[id], &acc)?;
                    hooks.node_done(id, layout[id], &acc)?;
                    slots[id] = Slot::Done(Some(acc));
                } else {
                    slots[id] = Slot::Pending { acc: Some(acc), next_piece: np, pos: p };
                }
                Ok(true)
            }
            Node::Join { left, right, swap, tail, restore: rst, .. } => {
                let started = matches!(&slots[id], Slot::JoinPending { merged: Some(_), .. });
                if matches!(&slots[id], Slot::Done(_)) {
                    return Ok(false);
                }
                if !started {
                    let ready = matches!(&slots[*left], Slot::Done(Some(_))) && matches!(&slots[*right], Slot::Done(Some(_)));
                    if !ready {
                        return Ok(false);
                    }
                    let l = match std::mem::replace(&mut slots[*left], Slot::Done(None)) {
                        Slot::Done(Some(e)) => e,
                        _ => unreachable!(),
                    };
                    let r = match std::mem::replace(&mut slots[*right], Slot::Done(None)) {
                        Slot::Done(Some(e)) => e,
                        _ => unreachable!(),
                    };
                    let (mut into, arg) = if *swap { (r, l) } else { (l, r) };
                    let mut merged_acc;
                    if hooks.wants_merge_details() {
                        let before = into.clone();
                        let arg_dbg = arg.debug();
                        into.absorb(&arg);
                        hooks.merged(id, &before, &arg, &arg_dbg, &into)?;
                        merged_acc = into;
                    } else {
                        into.absorb(&arg);
                        merged_acc = into;
                    }
                    if *rst && cfg.apply_restores {
                        merged_acc = restore(id, merged_acc, hooks)?;
                    }
                    let tail_start = layout[*right].1;
                    if tail.is_empty() {
                        hooks.node_done(id, layout[id], &merged_acc)?;
                        slots[id] = Slot::Done(Some(merged_acc));
                    } else {
                        slots[id] = Slot::JoinPending { merged: Some(merged_acc), next_tail: 0, pos: tail_start };
                    }
                    return Ok(true);
                }
                // ingest next tail piece
                let (mut acc, nt, pos) = match &mut slots[id] {
                    Slot::JoinPending { merged, next_tail, pos } => (merged.take().unwrap(), *next_tail, *pos),
                    _ => unreachable!(),
                };
                let pc = &tail[nt];
                acc.ingest(pc.path, &data[pos..pos + pc.len], false);
                if pc.restore && cfg.apply_restores {
                    acc = restore(id, acc, hooks)?;
                }
                if pc.reclone {
                    let c = acc.clone();
                    drop(acc);
                    acc = c;
                }
                if nt + 1 >= tail.len() {
                    hooks.node_done(id, layout[id], &acc)?;
                    slots[id] = Slot::Done(Some(acc));
                } else {
                    slots[id] = Slot::JoinPending { merged: Some(acc), next_tail: nt + 1, pos: pos + pc.len };
                }
                Ok(true)
            }
        }
    }

    for &o in &tree.order {
        let id = o as usize;
        if id < tree.nodes.len() {
            step(id, tree, &layout, data, cfg, &mut slots, hooks)?;
        }
    }
    // finish whatever the schedule left over, depth-first (post-order), iteratively
    let mut stack: Vec<(usize, bool)> = vec![(tree.root, false)];
    while let Some((id, expanded)) = stack.pop() {
        if matches!(&slots[id], Slot::Done(_)) {
            continue;
        }
        match &tree.nodes[id] {
            Node::Leaf { .. } => {
                while step(id, tree, &layout, data, cfg, &mut slots, hooks)? {
                    if matches!(&slots[id], Slot::Done(_)) {
                        break;
                    }
                }
            }
            Node::Join { left, right, .. } => {
                if !expanded {
                    stack.push((id, true));
                    stack.push((*right, false));
                    stack.push((*left, false));
                } else {
                    while !matches!(&slots[id], Slot::Done(_)) {
                        if !step(id, tree, &layout, data, cfg, &mut slots, hooks)? {
                            return Err(Viol::new("harness", "join could not progress"));
                        }
                    }
                }
            }
        }
    }
    match std::mem::replace(&mut slots[tree.root], Slot::Done(None)) {
        Slot::Done(Some(e)) => Ok(e),
        _ => Err(Viol::new("harness", "root not finished")),
    }
}
