//! R, rayon-plumbing driver (C19). A `ParallelIterator` implemented by the harness whose
//! `drive_unindexed(consumer)` hands the REAL consumer built by the crate's
//! `FromParallelIterator` impls (rayon's FoldConsumer over ReduceConsumer, optionally
//! under real filter/map/copied adaptors) to the simulated pool: `split_off_left` /
//! `to_reducer` at a split, `into_folder` / `consume` / `complete` at a leaf (several
//! folders alive at once, advanced in schedule order), `Reducer::reduce` at a join.
//! Also: the real-pool cross-check (recording producer + splitter-model acceptor).
#![allow(dead_code)]

use crate::envelope::exact_scalar;
use crate::exec::{generate, Node, Piece, Policy, TreeTrace};
use crate::framework::{Failure, RunInfo, Scenario, Stats, Tier, Viol};
use crate::gen;
use crate::props_r::{check_scalar_node, gen_cfg, guarded, RProp};
use crate::rng::Rng;
use crate::types::*;
use rayon::iter::plumbing::{bridge, Consumer, Folder, Producer, ProducerCallback, Reducer, UnindexedConsumer};
use rayon::iter::{FromParallelIterator, IndexedParallelIterator, ParallelIterator};
use serde::{Deserialize, Serialize};
use serde_json::{json, Value};
use std::collections::BTreeMap;
use std::sync::{Arc, Mutex};

// ---------------------------------------------------------------------------------
// the simulated parallel iterator
// ---------------------------------------------------------------------------------

pub struct SimPar<'a, I: Copy + Send + Sync> {
    pub items: &'a [I],
    pub tree: &'a TreeTrace,
}

enum CSlot<I, C: UnindexedConsumer<I>> {
    Empty,
    LeafC(C),
    LeafF { folder: C::Folder, piece: usize, pos: usize },
    JoinR(C::Reducer),
    Done(C::Result),
}

fn drive_tree<I: Copy + Send, C: UnindexedConsumer<I>>(tree: &TreeTrace, items: &[I], consumer: C) -> C::Result {
    let layout = tree.layout();
    assert_eq!(layout[tree.root].1, items.len(), "harness: trace and data length disagree");
    let mut slots: Vec<CSlot<I, C>> = (0..tree.nodes.len()).map(|_| CSlot::Empty).collect();
    // hand consumers down the tree: at every split the left half gets split_off_left()
    let mut stack: Vec<(usize, C)> = vec![(tree.root, consumer)];
    while let Some((id, c)) = stack.pop() {
        match &tree.nodes[id] {
            Node::Leaf { .. } => slots[id] = CSlot::LeafC(c),
            Node::Join { left, right, .. } => {
                let left_c = c.split_off_left();
                let reducer = c.to_reducer();
                slots[id] = CSlot::JoinR(reducer);
                stack.push((*right, c));
                stack.push((*left, left_c));
            }
        }
    }
    fn step<I: Copy + Send, C: UnindexedConsumer<I>>(
        id: usize,
        tree: &TreeTrace,
        layout: &[(usize, usize)],
        items: &[I],
        slots: &mut Vec<CSlot<I, C>>,
    ) -> bool {
        match &tree.nodes[id] {
            Node::Leaf { pieces } => {
                let cur = std::mem::replace(&mut slots[id], CSlot::Empty);
                let (mut folder, piece, mut pos) = match cur {
                    CSlot::LeafC(c) => (c.into_folder(), 0usize, layout[id].0),
                    CSlot::LeafF { folder, piece, pos } => (folder, piece, pos),
                    other => {
                        slots[id] = other;
                        return false;
                    }
                };
                let mut np = piece;
                if np < pieces.len() {
                    let l = pieces[np].len;
                    for &x in &items[pos..pos + l] {
                        folder = folder.consume(x);
                        if folder.full() {
                            break;
                        }
                    }
                    pos += l;
                    np += 1;
                }
                if np >= pieces.len() {
                    slots[id] = CSlot::Done(folder.complete());
                } else {
                    slots[id] = CSlot::LeafF { folder, piece: np, pos };
                }
                true
            }
            Node::Join { left, right, .. } => {
                if !matches!(slots[id], CSlot::JoinR(_)) {
                    return false;
                }
                if !(matches!(slots[*left], CSlot::Done(_)) && matches!(slots[*right], CSlot::Done(_))) {
                    return false;
                }
                let l = match std::mem::replace(&mut slots[*left], CSlot::Empty) {
                    CSlot::Done(r) => r,
                    _ => unreachable!(),
                };
                let r = match std::mem::replace(&mut slots[*right], CSlot::Empty) {
                    CSlot::Done(r) => r,
                    _ => unreachable!(),
                };
                let red = match std::mem::replace(&mut slots[id], CSlot::Empty) {
                    CSlot::JoinR(r) => r,
                    _ => unreachable!(),
                };
                slots[id] = CSlot::Done(red.reduce(l, r));
                true
            }
        }
    }
    for &o in &tree.order {
        let id = o as usize;
        if id < tree.nodes.len() {
            step(id, tree, &layout, items, &mut slots);
        }
    }
    // finish the rest depth-first
    let mut st: Vec<(usize, bool)> = vec![(tree.root, false)];
    while let Some((id, expanded)) = st.pop() {
        if matches!(slots[id], CSlot::Done(_)) {
            continue;
        }
        match &tree.nodes[id] {
            Node::Leaf { .. } => {
                while !matches!(slots[id], CSlot::Done(_)) {
                    if !step(id, tree, &layout, items, &mut slots) {
                        panic!("harness: leaf could not progress");
                    }
                }
            }
            Node::Join { left, right, .. } => {
                if !expanded {
                    st.push((id, true));
                    st.push((*right, false));
                    st.push((*left, false));
                } else if !step(id, tree, &layout, items, &mut slots) {
                    panic!("harness: join could not progress");
                }
            }
        }
    }
    match std::mem::replace(&mut slots[tree.root], CSlot::Empty) {
        CSlot::Done(r) => r,
        _ => panic!("harness: root not finished"),
    }
}

impl<'a, I: Copy + Send + Sync> ParallelIterator for SimPar<'a, I> {
    type Item = I;
    fn drive_unindexed<C: UnindexedConsumer<I>>(self, consumer: C) -> C::Result {
        drive_tree(self.tree, self.items, consumer)
    }
}

// ---------------------------------------------------------------------------------
// scenario
// ---------------------------------------------------------------------------------

#[derive(Serialize, Deserialize, Clone, Copy, Debug, PartialEq)]
pub enum Adaptor {
    None,
    /// keep items with x >= threshold (real rayon `filter`): empty leaves anywhere
    Filter(u64),
    /// real rayon `map`: x -> 2x (exact in binary)
    MapDouble,
}

#[derive(Serialize, Deserialize, Clone, Debug)]
pub struct PTrace {
    pub scenario: String,
    pub data: Vec<u64>,
    pub tree: TreeTrace,
    pub adaptor: Adaptor,
    #[serde(default)]
    pub meta: String,
    #[serde(default)]
    pub data_readable: Vec<String>,
}

pub struct PScenario;

pub trait ParEst: Est<Item = f64> + FromParallelIterator<f64> + for<'x> FromParallelIterator<&'x f64> {}
impl<T> ParEst for T where T: Est<Item = f64> + FromParallelIterator<f64> + for<'x> FromParallelIterator<&'x f64> {}

fn effective_data(data: &[f64], ad: Adaptor) -> Vec<f64> {
    match ad {
        Adaptor::None => data.to_vec(),
        Adaptor::Filter(t) => {
            let t = f64::from_bits(t);
            data.iter().copied().filter(|x| *x >= t).collect()
        }
        Adaptor::MapDouble => data.iter().map(|x| 2.0 * x).collect(),
    }
}

pub fn collect_val<T: ParEst>(tree: &TreeTrace, data: &[f64], ad: Adaptor) -> T {
    let it = SimPar { items: data, tree };
    match ad {
        Adaptor::None => it.collect(),
        Adaptor::Filter(t) => {
            let t = f64::from_bits(t);
            it.filter(move |x| *x >= t).collect()
        }
        Adaptor::MapDouble => it.map(|x| 2.0 * x).collect(),
    }
}

pub fn collect_ref<T: ParEst>(tree: &TreeTrace, data: &[f64], ad: Adaptor) -> T {
    let refs: Vec<&f64> = data.iter().collect();
    let it = SimPar { items: &refs[..], tree };
    match ad {
        Adaptor::None => it.collect(),
        Adaptor::Filter(t) => {
            let t = f64::from_bits(t);
            it.filter(move |x| **x >= t).collect()
        }
        // by reference there is no owned 2x to point at: use `copied` + map by value
        Adaptor::MapDouble => it.copied().map(|x| 2.0 * x).collect(),
    }
}

/// the same tree replayed by hand: leaf = merge(new, fold(new, chunk)), node = merge(left, right)
fn manual_replay<T: Est<Item = f64>>(tree: &TreeTrace, data: &[f64], ad: Adaptor) -> T {
    let layout = tree.layout();
    fn go<T: Est<Item = f64>>(tree: &TreeTrace, id: usize, layout: &[(usize, usize)], data: &[f64], ad: Adaptor) -> T {
        match &tree.nodes[id] {
            Node::Leaf { .. } => {
                let mut f = T::fresh();
                for &x in &effective_data(&data[layout[id].0..layout[id].1], ad) {
                    f.push(x);
                }
                let mut e = T::fresh();
                e.absorb(&f);
                e
            }
            Node::Join { left, right, .. } => {
                let mut l: T = go(tree, *left, layout, data, ad);
                let r: T = go(tree, *right, layout, data, ad);
                l.absorb(&r);
                l
            }
        }
    }
    go(tree, tree.root, &layout, data, ad)
}

fn check_collected<T: ParEst>(tr: &PTrace, data: &[f64], eff: &[f64], ex: &crate::envelope::ExactScalar, st: &mut Stats) -> Result<(), Viol> {
    for by_ref in [false, true] {
        let got: T = if by_ref { collect_ref(&tr.tree, data, tr.adaptor) } else { collect_val(&tr.tree, data, tr.adaptor) };
        let how = if by_ref { "collect::<_>() over &f64" } else { "collect::<_>() over f64" };
        // exactly the sequential len / min / max
        let seq: T = eff.iter().copied().collect::<Vec<f64>>().iter().fold(T::fresh(), |mut e, &x| {
            e.push(x);
            e
        });
        if got.count() != seq.count() {
            return Err(Viol::new(
                format!("{}:par_len", T::NAME),
                format!("{}: len() = {:?} but the sequential estimator has {:?}", how, got.count(), seq.count()),
            ));
        }
        for ((s, a), (_, b)) in got.stats_vec().iter().zip(seq.stats_vec().iter()) {
            if matches!(s, Stat::Min | Stat::Max) && !(a == b) {
                return Err(Viol::new(
                    format!("{}:{}", T::NAME, s.name()),
                    format!("{}: {} = {:e} but sequentially {:e}", how, s.name(), a, b),
                ));
            }
        }
        if eff.is_empty() {
            // an empty input yields an empty estimator
            if let Some(d) = stats_identical(&got.stats_vec(), &T::fresh().stats_vec()) {
                return Err(Viol::new(
                    format!("{}:par_empty", T::NAME),
                    format!("{}: empty input but {} = {:e} (fresh: {:e})", how, d.0.name(), d.1, d.2),
                ));
            }
            st.bump("probe.empty_input");
            continue;
        }
        if T::ORDER >= 1 {
            check_scalar_node(&got, ex, st, how).map_err(|v| Viol::new(v.class, format!("{} [{}]", v.detail, tr.meta)))?;
        }
        // fidelity probe (not a property): bit-identical to the hand replay of the same tree
        let man: T = manual_replay(&tr.tree, data, tr.adaptor);
        if stats_identical(&got.stats_vec(), &man.stats_vec()).is_some() {
            st.bump("probe.differs_from_manual_tree_replay");
        } else {
            st.bump("probe.bit_identical_to_manual_tree_replay");
        }
    }
    Ok(())
}

impl PScenario {
    pub fn execute(&self, tr: &PTrace, st: &mut Stats) -> Option<Viol> {
        let data: Vec<f64> = tr.data.iter().map(|b| f64::from_bits(*b)).collect();
        let eff = effective_data(&data, tr.adaptor);
        let ex = exact_scalar(&eff, 10);
        let mut res: Result<(), Viol> = Ok(());
        crate::for_scalar_types!(T => {
            if res.is_ok() {
                res = guarded(T::NAME, || check_collected::<T>(tr, &data, &eff, &ex, st));
            }
        });
        res.err()
    }

    fn generate(&self, seed: u64, tier: Tier, st: &mut Stats) -> PTrace {
        let mut rng = Rng::new(seed);
        let big = match tier {
            Tier::Quick => 1024,
            Tier::Thorough => 4096,
        };
        let mut n = gen::pick_n(&mut rng, big);
        if n > 256 && rng.chance(0.6) {
            n = rng.range(3, 64);
        }
        // rarely: a long input (up to 10^6 in thorough), where chunk sizes pass 2^16
        let long = rng.below(2000) == 0;
        if long {
            let hi: f64 = 1_000_000.0;
            n = if rng.chance(0.3) { (10_000.0 * (hi / 10_000.0).powf(rng.f())) as usize } else { rng.range(300_000, 1_000_000) };
            st.bump("probe.long_input_ge_10k");
        }
        let (d, m) = gen::scalar_c01(&mut rng, n);
        let mut cfg = gen_cfg(&mut rng, n, RProp::C02);
        // the faithful splitter most of the time; the over-approximating policies are sound too
        if rng.chance(0.5) {
            cfg.policy = Policy::Length;
        }
        if long {
            cfg.policy = match rng.below(10) {
                0..=2 => Policy::Length,
                3 => Policy::Balanced,
                4 => Policy::Lopsided,
                // a dozen chunks of very unequal, non-round sizes
                _ => Policy::Composition,
            };
            cfg.threads = rng.pick(&[1usize, 2, 3, 4, 8]);
            cfg.min_len = if rng.chance(0.5) { 1 } else { rng.range(1000, 70_000) };
            cfg.max_pieces = 1;
            cfg.pct = None;
        }
        cfg.paths = crate::exec::PathMix::AddOnly;
        cfg.tail_rate = 0.;
        let (tree, gs) = generate(&mut rng, &cfg);
        st.sim_events += gs.ticks;
        st.add("fault.steal", gs.steals);
        st.add("fault.stall", gs.stalls);
        st.add("fault.empty_worker", gs.empty_leaves);
        st.add("probe.right_half_not_stolen", gs.popped_own);
        st.add("probe.leaves", gs.leaves);
        if cfg.policy == Policy::Length {
            st.bump("policy.length_splitter");
        } else {
            st.bump("policy.over_approximating");
        }
        let adaptor = match rng.below(6) {
            0 => {
                let t = if d.is_empty() { 0.0 } else { d[rng.usize(d.len())] };
                Adaptor::Filter(t.to_bits())
            }
            1 => Adaptor::MapDouble,
            _ => Adaptor::None,
        };
        match adaptor {
            Adaptor::Filter(_) => st.bump("probe.filter_adaptor"),
            Adaptor::MapDouble => st.bump("probe.map_adaptor"),
            Adaptor::None => {}
        }
        let mut t = PTrace {
            scenario: "R/C19".into(),
            data: d.iter().map(|x| x.to_bits()).collect(),
            tree,
            adaptor,
            meta: format!("{:?} policy={:?} threads={} min_len={} max_len={} injected_root={}", m, cfg.policy, cfg.threads, cfg.min_len, cfg.max_len, cfg.injected_root),
            data_readable: vec![],
        };
        t.data_readable = t.data.iter().map(|b| format!("{:e}", f64::from_bits(*b))).collect();
        t
    }
}

fn to_r(t: &PTrace) -> crate::props_r::RTrace {
    crate::props_r::RTrace {
        scenario: t.scenario.clone(),
        pair: false,
        data: t.data.iter().map(|b| (*b, 0)).collect(),
        tree: t.tree.clone(),
        meta: t.meta.clone(),
        data_readable: vec![],
    }
}

impl Scenario for PScenario {
    fn name(&self) -> &'static str {
        "R/C19"
    }
    fn run(&self, seed: u64, _index: u64, tier: Tier, st: &mut Stats) -> (RunInfo, Option<Failure>) {
        let tr = self.generate(seed, tier, st);
        let mut key = tr.tree.shape_hash();
        for d in &tr.data {
            key = (key ^ d).wrapping_mul(0x100000001b3);
        }
        let nontrivial = tr.tree.n_joins() >= 1;
        let v = self.execute(&tr, st);
        let f = v.map(|viol| Failure { viol, trace: serde_json::to_value(&tr).unwrap() });
        (RunInfo { key, nontrivial }, f)
    }
    fn replay(&self, trace: &Value, st: &mut Stats) -> Result<Option<Viol>, String> {
        let tr: PTrace = serde_json::from_value(trace.clone()).map_err(|e| format!("bad C19 trace: {}", e))?;
        tr.tree.validate()?;
        if tr.tree.total_len() != tr.data.len() {
            return Err("trace tree and data disagree in length".into());
        }
        Ok(self.execute(&tr, st))
    }
    fn minimise(&self, trace: &Value, class: &str, budget: usize) -> (Value, Viol, usize) {
        let tr: PTrace = match serde_json::from_value(trace.clone()) {
            Ok(t) => t,
            Err(e) => return (trace.clone(), Viol::new("harness", format!("bad trace: {}", e)), 0),
        };
        let ad = tr.adaptor;
        let (mut t, v, tries) = crate::framework::minimise_typed(
            tr,
            class,
            budget,
            |t: &PTrace| {
                let mut e: Vec<Option<crate::props_r::REdit>> = vec![];
                if t.adaptor != Adaptor::None {
                    e.push(None); // drop the adaptor
                }
                e.extend(crate::props_r::r_edits(&to_r(t)).into_iter().map(Some));
                e
            },
            |t: &PTrace, e: &Option<crate::props_r::REdit>| match e {
                None => {
                    let mut c = t.clone();
                    c.adaptor = Adaptor::None;
                    Some(c)
                }
                Some(e) => crate::props_r::r_apply(&to_r(t), e).map(|r| PTrace {
                    scenario: t.scenario.clone(),
                    data: r.data.iter().map(|d| d.0).collect(),
                    tree: r.tree,
                    adaptor: t.adaptor,
                    meta: t.meta.clone(),
                    data_readable: vec![],
                }),
            },
            |t: &PTrace| (t.data.len() + t.tree.nodes.len()) * 8,
            |t| {
                let mut st = Stats::default();
                self.execute(t, &mut st)
            },
        );
        let _ = ad;
        t.data_readable = t.data.iter().map(|b| format!("{:e}", f64::from_bits(*b))).collect();
        (serde_json::to_value(&t).unwrap(), v, tries)
    }
    fn sample(&self, seed: u64, tier: Tier) -> Value {
        let mut st = Stats::default();
        let mut tr = self.generate(seed, tier, &mut st);
        for k in 1..200u64 {
            if tr.data.len() <= 12 && tr.tree.n_joins() >= 2 {
                break;
            }
            tr = self.generate(crate::rng::mix(seed, k), tier, &mut st);
        }
        serde_json::to_value(&tr).unwrap()
    }
    fn rule(&self) -> String {
        "R/C19: one run = collect::<T>() of a harness ParallelIterator, for 12 estimator types x {f64, &f64}, whose drive_unindexed executes rayon's real Fold/Reduce(/Filter/Map/Copied) consumers under one seeded schedule of the simulated pool (threads, LengthSplitter with min_len/max_len, steals, stalls; over-approximating split policies in half of the runs); distinct = distinct (split tree incl. chunk lengths, data bits); non-trivial = at least one split".into()
    }
}

// ---------------------------------------------------------------------------------
// real-pool cross-check: recording producer, replay of the recorded tree, splitter acceptor
// ---------------------------------------------------------------------------------

#[derive(Clone)]
struct Rec {
    splits: Arc<Mutex<Vec<(usize, usize, usize)>>>,
}
struct RecPar<'a> {
    data: &'a [f64],
    rec: Rec,
}
struct RecProd<'a> {
    data: &'a [f64],
    off: usize,
    rec: Rec,
}
impl<'a> ParallelIterator for RecPar<'a> {
    type Item = f64;
    fn drive_unindexed<C: UnindexedConsumer<f64>>(self, c: C) -> C::Result {
        bridge(self, c)
    }
    fn opt_len(&self) -> Option<usize> {
        Some(self.data.len())
    }
}
impl<'a> IndexedParallelIterator for RecPar<'a> {
    fn len(&self) -> usize {
        self.data.len()
    }
    fn drive<C: Consumer<f64>>(self, c: C) -> C::Result {
        bridge(self, c)
    }
    fn with_producer<CB: ProducerCallback<f64>>(self, cb: CB) -> CB::Output {
        cb.callback(RecProd { data: self.data, off: 0, rec: self.rec })
    }
}
impl<'a> Producer for RecProd<'a> {
    type Item = f64;
    type IntoIter = std::iter::Copied<std::slice::Iter<'a, f64>>;
    fn into_iter(self) -> Self::IntoIter {
        self.data.iter().copied()
    }
    fn split_at(self, index: usize) -> (Self, Self) {
        self.rec.splits.lock().unwrap().push((self.off, self.off + index, self.off + self.data.len()));
        let (l, r) = self.data.split_at(index);
        (RecProd { data: l, off: self.off, rec: self.rec.clone() }, RecProd { data: r, off: self.off + index, rec: self.rec })
    }
}

fn tree_from_splits(n: usize, map: &BTreeMap<(usize, usize), usize>) -> TreeTrace {
    let mut nodes: Vec<Node> = vec![];
    fn go(lo: usize, hi: usize, map: &BTreeMap<(usize, usize), usize>, nodes: &mut Vec<Node>) -> usize {
        let id = nodes.len();
        nodes.push(Node::Leaf { pieces: vec![] });
        if let Some(&mid) = map.get(&(lo, hi)) {
            let l = go(lo, mid, map, nodes);
            let r = go(mid, hi, map, nodes);
            nodes[id] = Node::Join { left: l, right: r, stolen: false, swap: false, tail: vec![], restore: false };
        } else {
            nodes[id] = Node::Leaf { pieces: vec![Piece { path: Path::AddLoop, len: hi - lo, restore: false, reclone: false }] };
        }
        id
    }
    go(0, n, map, &mut nodes);
    TreeTrace { nodes, root: 0, order: vec![] }
}

/// is there a pattern of "stolen" flags under which LengthSplitter produces exactly this tree?
fn accept(
    map: &BTreeMap<(usize, usize), usize>,
    lo: usize,
    hi: usize,
    splits: usize,
    may_be_stolen: bool,
    t: usize,
    min: usize,
) -> Result<(), String> {
    let len = hi - lo;
    let len_ok = len / 2 >= min;
    match map.get(&(lo, hi)) {
        None => {
            if len_ok && splits > 0 {
                return Err(format!("leaf [{},{}) but the splitter (splits={}) would split", lo, hi, splits));
            }
            Ok(())
        }
        Some(&mid) => {
            if mid != lo + len / 2 {
                return Err(format!("split of [{},{}) at {} is not the midpoint", lo, hi, mid));
            }
            if !len_ok {
                return Err(format!("split of [{},{}) below min_len", lo, hi));
            }
            let try_with = |stolen: bool| -> Result<(), String> {
                let out = if stolen { t.max(splits / 2) } else { splits / 2 };
                accept(map, lo, mid, out, false, t, min)?;
                accept(map, mid, hi, out, true, t, min)
            };
            if splits == 0 {
                if !may_be_stolen {
                    return Err(format!("split of [{},{}) needs a steal but it is a left child / root", lo, hi));
                }
                try_with(true)
            } else {
                try_with(false).or_else(|e| if may_be_stolen { try_with(true) } else { Err(e) })
            }
        }
    }
}

/// Real rayon pools: record the split tree, check the result against the exact envelope,
/// replay the recorded tree in the simulator (must be bit-identical) and require the
/// splitter model to accept the tree. Outcome depends only on the RECORDED tree.
pub fn real_pool_crosscheck(seed: u64, tier: Tier) -> (Value, Vec<(Viol, Value)>) {
    let mut rng = Rng::new(crate::rng::mix(seed, 0xC19));
    let collects = match tier {
        Tier::Quick => 200,
        Tier::Thorough => 5000,
    };
    let mut viols: Vec<(Viol, Value)> = vec![];
    let mut shapes = std::collections::BTreeSet::new();
    let (mut replayed_identical, mut accepted) = (0u64, 0u64);
    let mut max_leaves = 0usize;
    let threads_list = [1usize, 2, 3, 4, 8, 16];
    let pools: Vec<rayon::ThreadPool> =
        threads_list.iter().map(|&t| rayon::ThreadPoolBuilder::new().num_threads(t).build().expect("pool")).collect();
    let mut st = Stats::default();
    for i in 0..collects {
        let pi = rng.usize(pools.len());
        let threads = threads_list[pi];
        let n = match rng.below(8) {
            0 => rng.usize(4),
            1..=4 => rng.range(4, 300),
            5..=6 => rng.range(300, 5000),
            _ => match tier {
                Tier::Quick => rng.range(5000, 50_000),
                Tier::Thorough => rng.range(5000, 1_000_000),
            },
        };
        // a few long inputs in every tier: merged chunks beyond 2^16 elements
        let n = if i % 40 == 7 { rng.range(150_000, match tier { Tier::Quick => 400_000, Tier::Thorough => 1_000_000 }) } else { n };
        let (data, meta) = gen::scalar_c01(&mut rng, n);
        let (minl, maxl) = match rng.below(4) {
            0 => (1usize, usize::MAX),
            1 => (rng.range(1, 64), usize::MAX),
            2 => (1, rng.range(1, n.max(1))),
            _ => (rng.range(1, 8), rng.range(8, n.max(8))),
        };
        let which = rng.below(12);
        let rec = Rec { splits: Arc::new(Mutex::new(vec![])) };
        macro_rules! real {
            ($T:ty) => {{
                let got: $T = match std::panic::catch_unwind(std::panic::AssertUnwindSafe(|| {
                    pools[pi].install(|| RecPar { data: &data, rec: rec.clone() }.with_min_len(minl).with_max_len(maxl).collect::<$T>())
                })) {
                    Ok(g) => g,
                    Err(p) => {
                        // crate code panicked on a real pool: reproduce it in the simulator under the
                        // faithful splitter so that the report is an exactly replayable trace
                        let msg = crate::framework::panic_message(&p);
                        let mut found = false;
                        for k in 0..16u64 {
                            let mut r2 = Rng::new(crate::rng::mix(seed ^ 0xfa11, k));
                            let mut cfg = gen_cfg(&mut r2, n, RProp::C02);
                            cfg.policy = Policy::Length;
                            cfg.threads = threads;
                            cfg.min_len = minl;
                            cfg.max_len = maxl;
                            cfg.paths = crate::exec::PathMix::AddOnly;
                            cfg.max_pieces = 1;
                            cfg.tail_rate = 0.;
                            let (tree, _) = generate(&mut r2, &cfg);
                            let tr = PTrace {
                                scenario: "R/C19".into(),
                                data: data.iter().map(|x| x.to_bits()).collect(),
                                tree,
                                adaptor: Adaptor::None,
                                meta: format!("simulated after a panic on a real rayon pool ({}): threads={} min_len={} max_len={}", msg, threads, minl, maxl),
                                data_readable: vec![],
                            };
                            let mut st2 = Stats::default();
                            if let Some(v) = PScenario.execute(&tr, &mut st2) {
                                viols.push((v, serde_json::to_value(&tr).unwrap()));
                                found = true;
                                break;
                            }
                        }
                        if !found {
                            viols.push((
                                Viol::new("harness", format!("collect #{}: {} panicked on a real pool ({}) but not in 16 simulated schedules", i, <$T>::NAME, msg)),
                                Value::Null,
                            ));
                        }
                        continue;
                    }
                };
                let map: BTreeMap<(usize, usize), usize> =
                    rec.splits.lock().unwrap().iter().map(|&(lo, mid, hi)| ((lo, hi), mid)).collect();
                let tree = tree_from_splits(n, &map);
                let mut key: Vec<(usize, usize, usize)> = map.iter().map(|(k, v)| (k.0, *v, k.1)).collect();
                key.sort();
                max_leaves = max_leaves.max(tree.n_leaves());
                shapes.insert(key);
                let tr = PTrace {
                    scenario: "R/C19".into(),
                    data: data.iter().map(|x| x.to_bits()).collect(),
                    tree: tree.clone(),
                    adaptor: Adaptor::None,
                    meta: format!("recorded on a real rayon pool: threads={} min_len={} max_len={} {:?}", threads, minl, maxl, meta),
                    data_readable: vec![],
                };
                // 1. replay of the recorded tree in the simulator is bit-identical
                let sim: $T = collect_val(&tree, &data, Adaptor::None);
                if stats_identical(&got.stats_vec(), &sim.stats_vec()).is_some() || got.count() != sim.count() {
                    viols.push((
                        Viol::new("harness", format!("collect #{}: real pool result differs from the simulator's replay of the recorded split tree ({})", i, <$T>::NAME)),
                        serde_json::to_value(&tr).unwrap(),
                    ));
                } else {
                    replayed_identical += 1;
                }
                // 2. the splitter model accepts the tree
                let splits0 = threads.max(n / maxl.max(1));
                match accept(&map, 0, n, splits0, false, threads, minl.max(1)) {
                    Ok(()) => accepted += 1,
                    Err(e) => viols.push((
                        Viol::new("harness", format!("collect #{}: split tree of the real pool rejected by the executor's splitter model: {}", i, e)),
                        serde_json::to_value(&tr).unwrap(),
                    )),
                }
                // 3. the property itself on the real pool's result. A violation is reported
                //    through the simulator's replay of the recorded tree (exactly reproducible).
                if n > 0 {
                    let ex = exact_scalar(&data, <$T as Est>::ORDER.max(2) as u32);
                    let mut bad: Option<Viol> = None;
                    if got.count().map_or(false, |c| c != n as u64) {
                        bad = Some(Viol::new(format!("{}:par_len", <$T>::NAME), format!("real pool: len {:?} expected {}", got.count(), n)));
                    } else if <$T as Est>::ORDER >= 1 {
                        if let Err(v) = check_scalar_node(&got, &ex, &mut st, "real rayon pool") {
                            bad = Some(v);
                        }
                    } else {
                        for (s, a) in got.stats_vec() {
                            let want = if s == Stat::Min { ex.min } else { ex.max };
                            if !(a == want) {
                                bad = Some(Viol::new(format!("{}:{}", <$T>::NAME, s.name()), format!("real pool: {:e} expected {:e}", a, want)));
                            }
                        }
                    }
                    if let Some(b) = bad {
                        let mut st2 = Stats::default();
                        match PScenario.execute(&tr, &mut st2) {
                            Some(v) => viols.push((Viol::new(v.class, format!("{} [first seen on a real rayon pool: {}]", v.detail, b.detail)), serde_json::to_value(&tr).unwrap())),
                            None => viols.push((
                                Viol::new("harness", format!("collect #{}: real pool result violates ({}) but the simulator's replay of the recorded tree does not", i, b.detail)),
                                serde_json::to_value(&tr).unwrap(),
                            )),
                        }
                    }
                }
            }};
        }
        match which {
            0 => real!(average::Mean),
            1 => real!(average::Variance),
            2 => real!(average::Kurtosis),
            3 => real!(M6),
            4 => real!(average::Min),
            5 => real!(average::Max),
            6 => real!(average::Skewness),
            7 => real!(average::Moments4),
            8 => real!(M4),
            9 => real!(M5),
            10 => real!(M8),
            _ => real!(M10),
        }
    }
    (
        json!({
            "real_pool_collects": collects,
            "real_pool_trees_replayed_bit_identical": replayed_identical,
            "real_pool_trees_accepted_by_splitter_model": accepted,
            "distinct_real_split_trees": shapes.len(),
            "max_leaves_in_a_real_tree": max_leaves,
            "thread_counts": threads_list,
            "note": "the only place real threads run; every outcome is a function of the RECORDED split tree, never of timing"
        }),
        viols,
    )
}
