//! Registry of the bare build configuration (the crate with neither `std` nor `libm`):
//! only the self-contained simulator of bare.rs exists here.
use crate::bare::{BProp, BareScenario};
use crate::framework::{Plan, Scenario, Tier, Viol};
use serde_json::Value;

fn b(prop: BProp, q: u64, t: u64) -> Plan {
    Plan { scenario: Box::new(BareScenario { prop }) as Box<dyn Scenario>, runs_quick: q, runs_thorough: t }
}

pub fn plans(prop: &str) -> Vec<Plan> {
    match prop {
        "C14" => vec![b(BProp::C14, 200_000, 4_000_000)],
        "C20" => vec![b(BProp::C20, 200_000, 4_000_000)],
        "C11" => vec![b(BProp::C11, 200_000, 4_000_000)],
        _ => vec![],
    }
}

pub type ExtraFn = fn(u64, Tier) -> (Value, Vec<(Viol, Value)>);

pub fn extras(_prop: &str) -> Vec<(&'static str, ExtraFn)> {
    vec![]
}

pub fn assumptions(_prop: &str) -> Vec<&'static str> {
    vec![
        "sampling, not proof: seeded search over ingestion paths, chunkings, merge trees and data",
        "build configuration: the crate under test with --no-default-features (neither std nor libm); only Min, Max, Mean, Variance and Moments4 are driven, with oracles that need no rounding-error bound",
    ]
}
