//! Which scenarios decide which property, with their run budgets.
use crate::framework::{Plan, Scenario, Tier, Viol};
use crate::durable::{DProp, DScenario};
use crate::hist::{HProp, HScenario};
use crate::props_r::{RProp, RScenario};
use serde_json::Value;

fn r(prop: RProp, q: u64, t: u64) -> Plan {
    Plan { scenario: Box::new(RScenario { prop }) as Box<dyn Scenario>, runs_quick: q, runs_thorough: t }
}

fn h(prop: HProp, q: u64, t: u64) -> Plan {
    Plan { scenario: Box::new(HScenario { prop }) as Box<dyn Scenario>, runs_quick: q, runs_thorough: t }
}

fn d(prop: DProp, enumerate: bool, q: u64, t: u64) -> Plan {
    Plan { scenario: Box::new(DScenario { prop, enumerate }) as Box<dyn Scenario>, runs_quick: q, runs_thorough: t }
}

pub fn plans(prop: &str) -> Vec<Plan> {
    match prop {
        "C05" => vec![d(DProp::C05, false, 200_000, 4_000_000), d(DProp::C05, true, 200_000, 7 * 1_048_576),
            Plan { scenario: Box::new(crate::giant::GiantScenario { c15: false }) as Box<dyn Scenario>, runs_quick: 3, runs_thorough: 3 }],
        "C15" => vec![d(DProp::C15, false, 200_000, 4_000_000), d(DProp::C15, true, 200_000, 7 * 1_048_576),
            Plan { scenario: Box::new(crate::giant::GiantScenario { c15: true }) as Box<dyn Scenario>, runs_quick: 3, runs_thorough: 3 }],
        "C06" => vec![h(HProp::C06, 400_000, 8_000_000)],
        "C13" => vec![h(HProp::C13, 200_000, 4_000_000)],
        "C02" => vec![r(RProp::C02, 90_000, 4_000_000)],
        "C08" => vec![r(RProp::C08, 160_000, 5_000_000)],
        "C09" => vec![r(RProp::C09, 70_000, 3_000_000)],
        "C11" => vec![r(RProp::C11Scalar, 100_000, 2_000_000), r(RProp::C11Pair, 100_000, 2_000_000), h(HProp::C11, 100_000, 2_000_000),
            Plan { scenario: Box::new(crate::doubling::DoublingScenario) as Box<dyn Scenario>, runs_quick: 20_000, runs_thorough: 400_000 }],
        "C14" => vec![r(RProp::C14, 400_000, 8_000_000)],
        "C17" => vec![r(RProp::C17Scalar, 150_000, 3_000_000), r(RProp::C17Pair, 150_000, 3_000_000), h(HProp::C17, 100_000, 2_000_000)],
        "C18" => vec![d(DProp::C18, false, 200_000, 4_000_000), r(RProp::C18Scalar, 50_000, 1_000_000), r(RProp::C18Pair, 50_000, 1_000_000), h(HProp::C18, 100_000, 2_000_000)],
        "C19" => vec![Plan { scenario: Box::new(crate::drv_rayon::PScenario) as Box<dyn Scenario>, runs_quick: 60_000, runs_thorough: 1_500_000 }],
        "C20" => vec![
            r(RProp::C20Scalar, 100_000, 2_000_000),
            r(RProp::C20Pair, 100_000, 2_000_000),
            Plan { scenario: Box::new(crate::concat::CatScenario) as Box<dyn Scenario>, runs_quick: 100_000, runs_thorough: 2_000_000 },
        ],
        _ => vec![],
    }
}

pub type ExtraFn = fn(u64, Tier) -> (Value, Vec<(Viol, Value)>);

pub fn extras(prop: &str) -> Vec<(&'static str, ExtraFn)> {
    match prop {
        "C19" => vec![("real_pool_crosscheck", crate::drv_rayon::real_pool_crosscheck as ExtraFn)],
        _ => vec![],
    }
}

pub fn assumptions(prop: &str) -> Vec<&'static str> {
    let mut v = vec![
        "sampling, not proof: seeded search over schedules, merge trees, fault placements and data",
        "exact oracle: own big-integer arithmetic (sim/src/exact.rs), cross-checked against python fractions in ./check selftest",
        if cfg!(feature = "std") {
            "build configuration: the crate's `std` feature (not libm); simulator built with debug assertions on"
        } else if cfg!(feature = "nightly") {
            "build configuration: the crate's default `libm` feature plus its `nightly` feature (nightly toolchain), release profile"
        } else {
            "build configuration: the crate's default `libm` feature, release profile without debug assertions"
        },
    ];
    match prop {
        "C02" | "C08" | "C09" | "C19" => v.push("envelope constants of DESIGN.md 'Error envelopes'; asserted only where C*n*kappa*2^-53 <= 1 and away from overflow/underflow"),
        "C18" => v.push("states with non-finite fields (JSON null) are outside the precondition and skipped"),
        _ => {}
    }
    v
}
