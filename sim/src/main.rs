//! avsim: deterministic simulation with fault injection for vks/average.
//! See /verif/DESIGN.md. Usage:
//!   avsim --property C02 --tier quick|thorough [--seed N] [--scale F]
//!   avsim --replay <file>
//!   avsim --trace-hash --property C02 --runs N [--seed N]     (determinism selftest)
#![cfg_attr(feature = "nightly", feature(generic_const_exprs))]
#![cfg_attr(feature = "nightly", allow(incomplete_features))]
// `float` = the crate under test is built with `std` or `libm` (three of the four build
// configurations). Without it (the "bare" configuration) most estimator types do not exist
// and only the self-contained simulator of bare.rs is compiled.
mod bare;
#[cfg(feature = "float")]
mod concat;
#[cfg(feature = "float")]
mod doubling;
#[cfg(feature = "float")]
mod drv_rayon;
#[cfg(feature = "float")]
mod durable;
#[cfg(feature = "float")]
mod envelope;
#[cfg(feature = "float")]
mod exact;
#[cfg(feature = "float")]
mod exec;
mod framework;
mod gen;
#[cfg(feature = "float")]
mod giant;
#[cfg(feature = "float")]
mod hist;
#[cfg(feature = "float")]
mod htypes;
mod medium;
#[cfg(feature = "float")]
mod p2model;
#[cfg(feature = "float")]
mod props_r;
#[cfg(feature = "float")]
mod registry;
#[cfg(not(feature = "float"))]
#[path = "registry_bare.rs"]
mod registry;
mod rng;
#[cfg(feature = "float")]
mod types;

use framework::*;
use serde_json::{json, Value};
use std::collections::BTreeMap;
use std::time::Instant;

fn arg(args: &[String], name: &str) -> Option<String> {
    args.iter().position(|a| a == name).and_then(|i| args.get(i + 1).cloned())
}

fn verif_dir() -> String {
    std::env::var("VERIF_DIR").unwrap_or_else(|_| "/verif".to_string())
}

fn main() {
    install_panic_hook();
    let args: Vec<String> = std::env::args().collect();
    if let Some(path) = arg(&args, "--replay") {
        std::process::exit(replay_file(&path));
    }
    if args.iter().any(|a| a == "--oracle-selftest") {
        if let Err(e) = medium::selftest() {
            eprintln!("HARNESS-ERROR: storage media self-test failed: {}", e);
            std::process::exit(2);
        }
        oracle_cases();
        return;
    }
    let prop = match arg(&args, "--property") {
        Some(p) => p,
        None => {
            eprintln!("usage: avsim --property <id> --tier quick|thorough [--seed N] | --replay <file>");
            std::process::exit(2);
        }
    };
    let tier = match arg(&args, "--tier").as_deref().or(std::env::var("VERIF_TIER").ok().as_deref()) {
        Some("thorough") => Tier::Thorough,
        _ => Tier::Quick,
    };
    let seed: u64 = arg(&args, "--seed")
        .or_else(|| std::env::var("VERIF_SEED").ok())
        .and_then(|s| s.parse().ok())
        .unwrap_or(1);
    let scale: f64 = arg(&args, "--scale").and_then(|s| s.parse().ok()).unwrap_or(1.0);
    if args.iter().any(|a| a == "--trace-hash") {
        let runs: u64 = arg(&args, "--runs").and_then(|s| s.parse().ok()).unwrap_or(10_000);
        std::process::exit(trace_hash(&prop, seed, runs, tier));
    }
    let only = arg(&args, "--only");
    let tag = arg(&args, "--tag");
    std::process::exit(check_property(&prop, tier, seed, scale, only.as_deref(), tag.as_deref()));
}

/// determinism selftest: hash of every generated trace and outcome
fn trace_hash(prop: &str, seed: u64, runs: u64, tier: Tier) -> i32 {
    let plans = registry::plans(prop);
    if plans.is_empty() {
        eprintln!("unknown property {}", prop);
        return 2;
    }
    let mut h: u64 = 0xcbf29ce484222325;
    for p in &plans {
        // never more runs than the scenario's own quick budget (the giant-stream scenarios have three)
        let b = run_batch(p.scenario.as_ref(), seed, runs.min(p.runs_quick), tier);
        let mut items: Vec<String> = vec![];
        items.push(format!("{}:{}:{}", p.scenario.name(), b.evaluations, b.distinct_nontrivial));
        for (k, v) in &b.stats.counters {
            items.push(format!("{}={}", k, v));
        }
        for (k, v) in &b.stats.worst {
            items.push(format!("{}={:016x}", k, v.to_bits()));
        }
        for (k, v) in &b.stats.sets {
            items.push(format!("{}#{}", k, v.len()));
        }
        items.push(format!("ev={} or={}", b.stats.sim_events, b.stats.oracle_evals));
        for (i, f) in &b.failures {
            items.push(format!("{}:{}", i, f.viol.class));
        }
        for (k, v) in &b.class_counts {
            items.push(format!("count {}={}", k, v));
        }
        if std::env::var("AVSIM_HASH_DEBUG").is_ok() {
            for it in &items {
                println!("HASHITEM {}", it);
            }
        }
        for it in items {
            for byte in it.bytes() {
                h = (h ^ byte as u64).wrapping_mul(0x100000001b3);
            }
        }
    }
    println!("TRACEHASH property={} seed={} runs={} hash={:016x}", prop, seed, runs, h);
    0
}

fn replay_file(path: &str) -> i32 {
    let txt = match std::fs::read_to_string(path) {
        Ok(t) => t,
        Err(e) => {
            eprintln!("harness: cannot read {}: {}", path, e);
            return 2;
        }
    };
    let v: Value = match serde_json::from_str(&txt) {
        Ok(v) => v,
        Err(e) => {
            eprintln!("harness: cannot parse {}: {}", path, e);
            return 2;
        }
    };
    let prop = v["property"].as_str().unwrap_or("").to_string();
    let scen = v["scenario"].as_str().unwrap_or("").to_string();
    let plans = registry::plans(&prop);
    let plan = match plans.iter().find(|p| p.scenario.name() == scen) {
        Some(p) => p,
        None => {
            eprintln!("harness: replay file names unknown scenario {} for property {}", scen, prop);
            return 2;
        }
    };
    let mut st = Stats::default();
    match plan.scenario.replay(&v["trace"], &mut st) {
        Err(e) => {
            eprintln!("harness: replay failed: {}", e);
            2
        }
        Ok(None) => {
            println!("REPLAY property={} scenario={} outcome=holds", prop, scen);
            0
        }
        Ok(Some(viol)) => {
            if viol.class == "harness" {
                eprintln!("harness: {}", viol.detail);
                return 2;
            }
            println!("REPLAY property={} scenario={} class={} detail={}", prop, scen, viol.class, viol.detail);
            println!("VIOLATION property={} replay={}", prop, path);
            1
        }
    }
}

fn check_property(prop: &str, tier: Tier, seed: u64, scale: f64, only: Option<&str>, tag: Option<&str>) -> i32 {
    let t0 = Instant::now();
    let mut plans = registry::plans(prop);
    if let Some(o) = only {
        plans.retain(|p| p.scenario.name().starts_with(o));
    }
    if plans.is_empty() {
        eprintln!("harness: no check registered for property {}", prop);
        return 2;
    }
    let vdir = verif_dir();
    let known = load_known(&format!("{}/known_findings.json", vdir));
    println!("avsim property={} tier={} seed={} threads={}", prop, tier.name(), seed, n_threads());

    let mut results: Vec<(String, BatchResult, String, Vec<Value>)> = vec![];
    let mut extra = serde_json::Map::new();
    for p in &plans {
        let runs = ((match tier {
            Tier::Quick => p.runs_quick,
            Tier::Thorough => p.runs_thorough,
        }) as f64
            * scale)
            .max(1.0) as u64;
        let b = run_batch(p.scenario.as_ref(), seed, runs, tier);
        println!(
            "  scenario {:<16} runs={} distinct_nontrivial={} failures={} wall={:.1}s ({:.0} runs/s)",
            p.scenario.name(),
            b.evaluations,
            b.distinct_nontrivial,
            b.failures.len(),
            b.wall_s,
            b.evaluations as f64 / b.wall_s.max(1e-9)
        );
        let samples: Vec<Value> = (0..2).map(|k| p.scenario.sample(rng::mix(seed, 1_000_000 + k), tier)).collect();
        results.push((p.scenario.name().to_string(), b, p.scenario.rule(), samples));
    }
    // extra, scenario-independent deterministic checks (e.g. real-pool cross-check of C19)
    let mut extra_viol: Vec<(String, Viol, Value)> = vec![];
    for (name, f) in registry::extras(prop).into_iter().filter(|_| only.is_none()) {
        let te = Instant::now();
        let (val, viols) = f(seed, tier);
        println!("  extra {:<20} wall={:.1}s", name, te.elapsed().as_secs_f64());
        extra.insert(name.to_string(), val);
        for (v, trace) in viols {
            extra_viol.push((name.to_string(), v, trace));
        }
    }

    // classify failures
    let mut harness_errors: Vec<String> = vec![];
    let mut by_class: BTreeMap<String, (String, u64, Value, Viol, usize)> = BTreeMap::new(); // class -> (scenario, run, trace, viol, count)
    for (si, (name, b, _, _)) in results.iter().enumerate() {
        let _ = si;
        for (i, f) in &b.failures {
            if f.viol.class == "harness" {
                harness_errors.push(format!("{} run {}: {}", name, i, f.viol.detail));
                continue;
            }
            let e = by_class
                .entry(f.viol.class.clone())
                .or_insert_with(|| (name.clone(), *i, f.trace.clone(), f.viol.clone(), 0));
            // start minimisation from the smallest failing trace of the class (ties: lowest run)
            if f.trace.to_string().len() < e.2.to_string().len() {
                e.0 = name.clone();
                e.1 = *i;
                e.2 = f.trace.clone();
                e.3 = f.viol.clone();
            }
        }
    }
    for (class, e) in by_class.iter_mut() {
        e.4 = results.iter().map(|(_, b, _, _)| b.class_counts.get(class).copied().unwrap_or(0) as usize).sum();
    }
    for (name, v, trace) in &extra_viol {
        if v.class == "harness" {
            harness_errors.push(format!("{}: {}", name, v.detail));
        } else {
            let scen = trace.get("scenario").and_then(|s| s.as_str()).unwrap_or(name).to_string();
            by_class.entry(v.class.clone()).or_insert_with(|| (scen, 0, trace.clone(), v.clone(), 1));
        }
    }
    if !harness_errors.is_empty() {
        for e in harness_errors.iter().take(10) {
            eprintln!("harness error: {}", e);
        }
        return 2;
    }

    let mut violations = 0usize;
    let mut known_hit: BTreeMap<String, usize> = BTreeMap::new();
    let _ = std::fs::create_dir_all(format!("{}/replays", vdir));
    let mut reported = 0;
    for (class, (scen, run, trace, viol, count)) in &by_class {
        // known finding?
        if let Some(k) = known
            .iter()
            .find(|k| k.property == prop && k.status == "known" && k.class_prefixes.iter().any(|p| class.starts_with(p.as_str())))
        {
            *known_hit.entry(k.id.clone()).or_insert(0) += count;
            continue;
        }
        violations += 1;
        if reported >= 4 {
            continue;
        }
        reported += 1;
        // minimise and write the replay file
        let plan = plans.iter().find(|p| p.scenario.name() == scen);
        let (min_trace, min_viol, tries) = match plan {
            Some(p) => p.scenario.minimise(trace, class, 3000),
            None => (trace.clone(), viol.clone(), 0),
        };
        let safe: String = class.chars().map(|c| if c.is_ascii_alphanumeric() { c } else { '_' }).collect();
        let path = format!("{}/replays/{}{}-{}-{}-{}.json", vdir, prop, tag.map(|t| format!(".{}", t)).unwrap_or_default(), seed, run, safe);
        let file = json!({
            "property": prop,
            "scenario": scen,
            "binary": tag.unwrap_or("stable"),
            "seed": seed,
            "run_index": run,
            "class": class,
            "detail": min_viol.detail,
            "original_detail": viol.detail,
            "occurrences_in_batch": count,
            "minimisation_steps": tries,
            "trace": min_trace,
        });
        if let Err(e) = std::fs::write(&path, serde_json::to_string_pretty(&file).unwrap()) {
            eprintln!("harness: cannot write {}: {}", path, e);
            return 2;
        }
        // replay in a fresh process; it must fail identically
        let verified = if plan.is_some() {
            match std::process::Command::new(std::env::current_exe().unwrap()).arg("--replay").arg(&path).output() {
                Ok(o) => {
                    let out = String::from_utf8_lossy(&o.stdout).to_string();
                    o.status.code() == Some(1) && out.contains(&format!("class={}", class))
                }
                Err(_) => false,
            }
        } else {
            true
        };
        if !verified {
            eprintln!("harness error: replay of {} in a fresh process did not reproduce class {}", path, class);
            return 2;
        }
        println!("  violation class={} ({} runs) {}", class, count, min_viol.detail);
        println!("VIOLATION property={} replay={}", prop, path);
    }
    // every listed known finding of this property prints its line
    for k in known.iter().filter(|k| k.property == prop && k.status == "known") {
        println!(
            "KNOWN-FINDING: property={} {} {} (reproduced in {} runs of this batch)",
            prop,
            k.id,
            k.what,
            known_hit.get(&k.id).copied().unwrap_or(0)
        );
    }

    let wall = t0.elapsed().as_secs_f64();
    let parts: Vec<(String, &BatchResult, String, Vec<Value>)> =
        results.iter().map(|(n, b, r, s)| (n.clone(), b, r.clone(), s.clone())).collect();
    let ev = evidence_json(prop, tier, seed, &parts, Value::Object(extra), violations, wall, &registry::assumptions(prop));
    let epath = format!("{}/evidence/{}{}.json", vdir, prop, tag.map(|t| format!(".{}", t)).unwrap_or_default());
    let _ = std::fs::create_dir_all(format!("{}/evidence", vdir));
    if let Err(e) = std::fs::write(&epath, serde_json::to_string_pretty(&ev).unwrap()) {
        eprintln!("harness: cannot write {}: {}", epath, e);
        return 2;
    }
    println!(
        "avsim property={} done: evaluations={} violations={} wall={:.1}s evidence={}",
        prop,
        ev["coverage"]["evaluations"],
        violations,
        wall,
        epath
    );
    if violations > 0 {
        1
    } else {
        0
    }
}

#[cfg(not(feature = "float"))]
fn oracle_cases() {}

/// dump exact-oracle results for random samples; compared with python fractions by oracle_selftest.py
#[cfg(feature = "float")]
fn oracle_cases() {
    let mut rng = rng::Rng::new(20260928);
    let mut out = vec![];
    for i in 0..2000 {
        let n = 1 + rng.usize(if i % 10 == 0 { 200 } else { 12 });
        let (xs, _) = if i % 3 == 0 { gen::scalar_c17(&mut rng, n) } else { gen::scalar_c01(&mut rng, n) };
        let ex = envelope::exact_scalar(&xs, 10);
        let mut c = json!({
            "data": xs.iter().map(|x| x.to_bits()).collect::<Vec<u64>>(),
            "mean": ex.mean, "central": ex.central, "abs_central": ex.abs_central,
        });
        if i % 2 == 0 {
            let (pairs, _, _) = gen::weighted_c08(&mut rng, n);
            let ys: Vec<f64> = pairs.iter().map(|p| p.1).collect();
            let data: Vec<(f64, f64)> = xs.iter().copied().zip(ys.iter().copied()).collect();
            let ep = envelope::exact_pair(&data);
            c["ys"] = json!(ys.iter().map(|x| x.to_bits()).collect::<Vec<u64>>());
            c["cxy"] = json!(ep.cxy);
            c["sum_w"] = json!(ep.sum_w);
            c["sum_w2"] = json!(ep.sum_w2);
            c["wmean"] = json!(if ep.wmean.is_nan() { 0.0 } else { ep.wmean });
        }
        out.push(c);
    }
    // non-finite numbers cannot be written as JSON: replace by 0 (python side skips overflow)
    let txt = serde_json::to_string(&out).unwrap_or_else(|_| "[]".into());
    println!("{}", txt);
}
