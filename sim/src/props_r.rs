//! Properties decided on simulator R (work-stealing reduction): C02 C08 C09 C11 C14 C17 C20
//! and the worker-level crash/restore variant of C18.
#![allow(dead_code)]

use crate::envelope::{exact_pair, exact_scalar, ExactPair, ExactScalar, Verdict, U};
use crate::exec::{
    generate, run_tree, GenCfg, GenStats, Hooks, Node, PathMix, Piece, Policy, RunCfg, TreeTrace,
};
use crate::framework::{Failure, RunInfo, Scenario, Stats, Tier, Viol};
use crate::gen;
use crate::rng::Rng;
use crate::types::*;
use serde::{Deserialize, Serialize};
use serde_json::Value;
use std::cell::RefCell;
use std::panic::{catch_unwind, AssertUnwindSafe};
use std::rc::Rc;

#[derive(Clone, Copy, Debug, PartialEq, Eq)]
pub enum RProp {
    C02,
    C08,
    C09,
    C11Scalar,
    C11Pair,
    C14,
    C17Scalar,
    C17Pair,
    C18Scalar,
    C18Pair,
    C20Scalar,
    C20Pair,
}

impl RProp {
    pub fn id(&self) -> &'static str {
        match self {
            RProp::C02 => "C02",
            RProp::C08 => "C08",
            RProp::C09 => "C09",
            RProp::C11Scalar | RProp::C11Pair => "C11",
            RProp::C14 => "C14",
            RProp::C17Scalar | RProp::C17Pair => "C17",
            RProp::C18Scalar | RProp::C18Pair => "C18",
            RProp::C20Scalar | RProp::C20Pair => "C20",
        }
    }
    pub fn scen_name(&self) -> &'static str {
        match self {
            RProp::C02 => "R/C02",
            RProp::C08 => "R/C08",
            RProp::C09 => "R/C09",
            RProp::C11Scalar => "R/C11-scalar",
            RProp::C11Pair => "R/C11-pair",
            RProp::C14 => "R/C14",
            RProp::C17Scalar => "R/C17-scalar",
            RProp::C17Pair => "R/C17-pair",
            RProp::C18Scalar => "R/C18-scalar",
            RProp::C18Pair => "R/C18-pair",
            RProp::C20Scalar => "R/C20-scalar",
            RProp::C20Pair => "R/C20-pair",
        }
    }
    pub fn is_pair(&self) -> bool {
        matches!(self, RProp::C08 | RProp::C09 | RProp::C11Pair | RProp::C17Pair | RProp::C18Pair | RProp::C20Pair)
    }
}

#[derive(Serialize, Deserialize, Clone, Debug)]
pub struct RTrace {
    pub scenario: String,
    pub pair: bool,
    /// observation bit patterns; second component 0 for scalar data
    pub data: Vec<(u64, u64)>,
    pub tree: TreeTrace,
    #[serde(default)]
    pub meta: String,
    /// human-readable copy of `data` (ignored on replay)
    #[serde(default)]
    pub data_readable: Vec<String>,
}

impl RTrace {
    fn scalar(&self) -> Vec<f64> {
        self.data.iter().map(|b| f64::from_bits(b.0)).collect()
    }
    fn pairs(&self) -> Vec<(f64, f64)> {
        self.data.iter().map(|b| (f64::from_bits(b.0), f64::from_bits(b.1))).collect()
    }
    fn refresh_readable(&mut self) {
        self.data_readable = self
            .data
            .iter()
            .map(|b| {
                if self.pair {
                    format!("({:e}, {:e})", f64::from_bits(b.0), f64::from_bits(b.1))
                } else {
                    format!("{:e}", f64::from_bits(b.0))
                }
            })
            .collect();
    }
}

pub struct RScenario {
    pub prop: RProp,
}

// ---------------------------------------------------------------------------------
// per-node exact cache
// ---------------------------------------------------------------------------------

struct ExactCache<'a> {
    data: &'a [f64],
    cache: RefCell<Vec<Option<Rc<ExactScalar>>>>,
}
impl<'a> ExactCache<'a> {
    fn new(data: &'a [f64], nodes: usize) -> Self {
        ExactCache { data, cache: RefCell::new(vec![None; nodes]) }
    }
    fn get(&self, id: usize, range: (usize, usize)) -> Rc<ExactScalar> {
        if let Some(e) = &self.cache.borrow()[id] {
            return e.clone();
        }
        let e = Rc::new(exact_scalar(&self.data[range.0..range.1], 10));
        self.cache.borrow_mut()[id] = Some(e.clone());
        e
    }
}

struct PairCache<'a> {
    data: &'a [(f64, f64)],
    cache: RefCell<Vec<Option<Rc<ExactPair>>>>,
    weighted: bool,
}
impl<'a> PairCache<'a> {
    fn new(data: &'a [(f64, f64)], nodes: usize, weighted: bool) -> Self {
        PairCache { data, cache: RefCell::new(vec![None; nodes]), weighted }
    }
    fn get(&self, id: usize, range: (usize, usize)) -> Rc<ExactPair> {
        if let Some(e) = &self.cache.borrow()[id] {
            return e.clone();
        }
        let e = Rc::new(crate::envelope::exact_pair_sel(&self.data[range.0..range.1], !self.weighted, self.weighted));
        self.cache.borrow_mut()[id] = Some(e.clone());
        e
    }
}

fn hex(x: f64) -> String {
    format!("{:e} (0x{:016x})", x, x.to_bits())
}

// ---------------------------------------------------------------------------------
// C02: envelope at every node
// ---------------------------------------------------------------------------------

pub const MAX_NODE_ORACLE: usize = 256;

struct EnvHooks<'a, 'b> {
    exact: &'a ExactCache<'b>,
    root: usize,
    st: &'a mut Stats,
    ty: &'static str,
    /// [lo,hi) of every node and whether the node is a join without tail
    layout: Vec<(usize, usize)>,
    plain_join: Vec<bool>,
}

pub fn check_scalar_node<E: Est<Item = f64>>(
    acc: &E,
    ex: &ExactScalar,
    st: &mut Stats,
    where_: &str,
) -> Result<(), Viol> {
    let n = ex.n;
    if let Some(c) = acc.count() {
        if c != n {
            return Err(Viol::new(
                format!("{}:len", E::NAME),
                format!("{} len()={} but {} observations were absorbed", where_, c, n),
            ));
        }
    }
    st.oracle_evals += 1;
    // every accessor is a function of the state: a second call returns the same bits
    let first = acc.stats_vec();
    if let Some((s, a, b)) = stats_identical(&first, &acc.stats_vec()) {
        return Err(Viol::new(
            format!("{}:{}:accessor_not_repeatable", E::NAME, s.name()),
            format!("{} {}::{} returned {} and then {} on the same estimator", where_, E::NAME, s.name(), hex(a), hex(b)),
        ));
    }
    for (stat, got) in first {
        if let Some(v) = ex.exact_value(stat) {
            // central_moment(0)=1, central_moment(1)=0 always; standardized 0/1/2 exact
            let ok = match stat {
                Stat::Standardized(2) => n == 0 || got == v,
                _ => got == v,
            };
            if !ok {
                return Err(Viol::new(
                    format!("{}:{}", E::NAME, stat.name()),
                    format!("{} {} = {} expected exactly {}", where_, stat.name(), hex(got), v),
                ));
            }
            continue;
        }
        match ex.judge(stat, got) {
            Verdict::Ok(r) => {
                st.ratio(&stat.name(), r);
                st.bump("oracle.statistic_inside_envelope");
            }
            Verdict::Skip => {
                if n == 0 {
                    st.bump("oracle.skipped_empty_node");
                } else if !(ex.sigma > 0.) {
                    st.bump("oracle.skipped_zero_spread");
                } else {
                    st.bump("oracle.skipped_outside_domain");
                }
            }
            Verdict::Fail(exact, tol) => {
                return Err(Viol::new(
                    format!("{}:{}", E::NAME, stat.name()),
                    format!(
                        "{} {}::{} = {} but exact = {} (|diff| = {:e} > tolerance {:e}; n={} kappa={:e})",
                        where_,
                        E::NAME,
                        stat.name(),
                        hex(got),
                        hex(exact),
                        (got - exact).abs(),
                        tol,
                        n,
                        ex.kappa
                    ),
                ));
            }
        }
    }
    Ok(())
}

impl<'a, 'b, E: Est<Item = f64>> Hooks<E> for EnvHooks<'a, 'b> {
    fn wants_merge_details(&self) -> bool {
        true
    }
    /// probes on a sample of the merge events: the merge in the other direction, the argument
    /// merged twice, and the result merged with a clone of itself must all be summaries of the
    /// corresponding multisets
    fn merged(&mut self, id: usize, before: &E, arg: &E, _arg_dbg: &str, after: &E) -> Result<(), Viol> {
        if id % 4 != 1 || !self.plain_join[id] {
            return Ok(());
        }
        let range = self.layout[id];
        if range.1 - range.0 > 64 || range.1 == range.0 {
            return Ok(());
        }
        let ex = self.exact.get(id, range);
        // b.merge(a): same multiset
        let mut rev = arg.clone();
        rev.absorb(before);
        check_scalar_node(&rev, &ex, self.st, &format!("join {} merged in the other direction [{}..{})", id, range.0, range.1))
            .map_err(|v| Viol::new(format!("{}:reverse_merge", v.class), v.detail))?;
        // (a+b).merge(clone of a+b): every observation twice -> same mean and central moments, n doubled
        let mut twice = (*ex).clone();
        twice.n *= 2;
        let mut dbl = after.clone();
        let c = after.clone();
        dbl.absorb(&c);
        check_scalar_node(&dbl, &twice, self.st, &format!("join {} merged with a clone of itself [{}..{})", id, range.0, range.1))
            .map_err(|v| Viol::new(format!("{}:self_merge", v.class), v.detail))?;
        self.st.bump("probe.reverse_and_self_merge");
        Ok(())
    }
    fn node_done(&mut self, id: usize, range: (usize, usize), acc: &E) -> Result<(), Viol> {
        let len = range.1 - range.0;
        if len > MAX_NODE_ORACLE && id != self.root {
            // len() is still exact everywhere
            if let Some(c) = acc.count() {
                if c != len as u64 {
                    return Err(Viol::new(format!("{}:len", E::NAME), format!("node {} len()={} expected {}", id, c, len)));
                }
            }
            return Ok(());
        }
        let ex = self.exact.get(id, range);
        check_scalar_node(acc, &ex, self.st, &format!("node {} [{}..{})", id, range.0, range.1))
    }
}

// ---------------------------------------------------------------------------------
// C08 / C09: pair envelopes
// ---------------------------------------------------------------------------------

struct PairEnvHooks<'a, 'b> {
    exact: &'a PairCache<'b>,
    root: usize,
    st: &'a mut Stats,
    weighted: bool,
}

impl<'a, 'b, E: Est<Item = (f64, f64)>> Hooks<E> for PairEnvHooks<'a, 'b> {
    fn node_done(&mut self, id: usize, range: (usize, usize), acc: &E) -> Result<(), Viol> {
        let len = range.1 - range.0;
        if let Some(c) = acc.count() {
            if c != len as u64 {
                return Err(Viol::new(format!("{}:len", E::NAME), format!("node {} len()={} expected {}", id, c, len)));
            }
        }
        if len > MAX_NODE_ORACLE && id != self.root {
            return Ok(());
        }
        let ex = self.exact.get(id, range);
        self.st.oracle_evals += 1;
        for (stat, got) in acc.stats_vec() {
            let v = if self.weighted { ex.judge_weighted(stat, got) } else { ex.judge_cov(stat, got) };
            match v {
                Verdict::Ok(r) => {
                    self.st.ratio(&stat.name(), r);
                    self.st.bump("oracle.statistic_inside_envelope");
                }
                Verdict::Skip => self.st.bump("oracle.skipped_outside_domain"),
                Verdict::Fail(exact, tol) => {
                    return Err(Viol::new(
                        format!("{}:{}", E::NAME, stat.name()),
                        format!(
                            "node {} [{}..{}) {}::{} = {} but exact = {} (|diff| = {:e} > tolerance {:e}; n={})",
                            id,
                            range.0,
                            range.1,
                            E::NAME,
                            stat.name(),
                            hex(got),
                            hex(exact),
                            (got - exact).abs(),
                            tol,
                            len
                        ),
                    ));
                }
            }
        }
        if self.weighted && ex.weights_ok && ex.sum_w > 0. {
            self.st.bump("probe.node_positive_weight");
        }
        Ok(())
    }
}

// ---------------------------------------------------------------------------------
// C11: identity / length / argument unchanged at every merge event
// ---------------------------------------------------------------------------------

struct MergeHooks<'a> {
    st: &'a mut Stats,
    /// identity probes at every node (cheap types) or only at some
    probe_all: bool,
}

fn bits_diff<E: Est>(a: &E, b: &E) -> Option<String> {
    let sa = a.stats_vec();
    let sb = b.stats_vec();
    stats_identical(&sa, &sb).map(|(s, x, y)| format!("{} = {} vs {}", s.name(), hex(x), hex(y)))
}

impl<'a, E: Est> Hooks<E> for MergeHooks<'a> {
    fn wants_merge_details(&self) -> bool {
        true
    }
    fn merged(&mut self, id: usize, before: &E, arg: &E, arg_dbg: &str, after: &E) -> Result<(), Viol> {
        self.st.oracle_evals += 1;
        if arg.debug() != arg_dbg {
            return Err(Viol::new(
                format!("{}:argument_modified", E::NAME),
                format!("join {}: merge changed its argument: {} -> {}", id, arg_dbg, arg.debug()),
            ));
        }
        if let (Some(a), Some(b), Some(c)) = (before.count(), arg.count(), after.count()) {
            if c != a + b {
                return Err(Viol::new(
                    format!("{}:len_additivity", E::NAME),
                    format!("join {}: len {} merged with len {} gives len {}", id, a, b, c),
                ));
            }
            if b == 0 {
                self.st.bump("probe.merge_with_empty_other");
                if let Some(d) = bits_diff(after, before) {
                    return Err(Viol::new(
                        format!("{}:empty_right_identity", E::NAME),
                        format!("join {}: merging an empty estimator changed a statistic: {} (len {})", id, d, a),
                    ));
                }
            }
            if a == 0 {
                self.st.bump("probe.merge_with_empty_self");
                if let Some(d) = bits_diff(after, arg) {
                    return Err(Viol::new(
                        format!("{}:empty_left_identity", E::NAME),
                        format!("join {}: merging into an empty estimator does not reproduce the argument: {} (len {})", id, d, b),
                    ));
                }
            }
        }
        Ok(())
    }
    fn node_done(&mut self, id: usize, range: (usize, usize), acc: &E) -> Result<(), Viol> {
        let len = (range.1 - range.0) as u64;
        if let Some(c) = acc.count() {
            if c != len {
                return Err(Viol::new(format!("{}:len", E::NAME), format!("node {}: len()={} after {} observations", id, c, len)));
            }
            if let Some(e) = acc.empty_flag() {
                if e != (c == 0) {
                    return Err(Viol::new(
                        format!("{}:is_empty", E::NAME),
                        format!("node {}: is_empty()={} but len()={}", id, e, c),
                    ));
                }
            }
        }
        if !self.probe_all && id % 3 != 0 {
            return Ok(());
        }
        self.st.oracle_evals += 1;
        // a.merge(&fresh) == a
        for fresh in [E::fresh(), E::fresh_default()] {
            let mut a2 = acc.clone();
            a2.absorb(&fresh);
            if let Some(d) = bits_diff(&a2, acc) {
                return Err(Viol::new(
                    format!("{}:empty_right_identity", E::NAME),
                    format!("node {}: a.merge(&new()) changed a statistic: {} (len {})", id, d, len),
                ));
            }
            if a2.count() != acc.count() {
                return Err(Viol::new(format!("{}:len_additivity", E::NAME), format!("node {}: a.merge(&new()) changed len", id)));
            }
            // twice: still identity
            a2.absorb(&fresh);
            if let Some(d) = bits_diff(&a2, acc) {
                return Err(Viol::new(
                    format!("{}:empty_right_identity", E::NAME),
                    format!("node {}: second a.merge(&new()) changed a statistic: {}", id, d),
                ));
            }
            // new().merge(&a) == a
            let mut f = fresh.clone();
            f.absorb(acc);
            if let Some(d) = bits_diff(&f, acc) {
                return Err(Viol::new(
                    format!("{}:empty_left_identity", E::NAME),
                    format!("node {}: new().merge(&a) differs from a: {} (len {})", id, d, len),
                ));
            }
            if f.count() != acc.count() {
                return Err(Viol::new(format!("{}:len_additivity", E::NAME), format!("node {}: new().merge(&a) has wrong len", id)));
            }
            if fresh.debug() != E::fresh().debug() && fresh.debug() != E::fresh_default().debug() {
                return Err(Viol::new(format!("{}:argument_modified", E::NAME), format!("node {}: empty argument was modified", id)));
            }
        }
        self.st.bump("probe.identity_probe");
        Ok(())
    }
}

// ---------------------------------------------------------------------------------
// C14: exact extremes
// ---------------------------------------------------------------------------------

struct MinMaxHooks<'a> {
    data: &'a [f64],
    st: &'a mut Stats,
}

impl<'a, E: Est<Item = f64>> Hooks<E> for MinMaxHooks<'a> {
    fn node_done(&mut self, id: usize, range: (usize, usize), acc: &E) -> Result<(), Viol> {
        let mut mn = f64::INFINITY;
        let mut mx = f64::NEG_INFINITY;
        let mut any = false;
        for &x in &self.data[range.0..range.1] {
            if x.is_nan() {
                continue;
            }
            any = true;
            if x < mn {
                mn = x;
            }
            if x > mx {
                mx = x;
            }
        }
        if !any {
            self.st.bump("probe.node_without_non_nan");
        }
        self.st.oracle_evals += 1;
        for (stat, got) in acc.stats_vec() {
            let want = match stat {
                Stat::Min => mn,
                Stat::Max => mx,
                _ => continue,
            };
            // equal as numbers: -0.0 == 0.0; NaN never equal
            if !(got == want) {
                return Err(Viol::new(
                    format!("{}:{}", E::NAME, stat.name()),
                    format!(
                        "node {} [{}..{}): {}() = {} but the exact extreme of the non-NaN observations absorbed is {}",
                        id,
                        range.0,
                        range.1,
                        stat.name().to_lowercase(),
                        hex(got),
                        hex(want)
                    ),
                ));
            }
        }
        Ok(())
    }
}

// ---------------------------------------------------------------------------------
// C17: sign / range invariants on the extended domain
// ---------------------------------------------------------------------------------

struct InvHooks<'a> {
    xs: &'a [f64],
    /// weights (pair/weighted runs) or empty
    ws: &'a [f64],
    st: &'a mut Stats,
}

impl<'a, E: Est> Hooks<E> for InvHooks<'a> {
    fn node_done(&mut self, id: usize, range: (usize, usize), acc: &E) -> Result<(), Viol> {
        let n = range.1 - range.0;
        if n == 0 {
            return Ok(());
        }
        self.st.oracle_evals += 1;
        let xs = &self.xs[range.0..range.1];
        let nf = n as f64;
        let (mut mn, mut mx, mut m) = (f64::INFINITY, f64::NEG_INFINITY, 0f64);
        for &x in xs {
            mn = mn.min(x);
            mx = mx.max(x);
            m = m.max(x.abs());
        }
        // for the y coordinate of Covariance
        let (mut ymn, mut ymx, mut ym) = (f64::INFINITY, f64::NEG_INFINITY, 0f64);
        // contributing (w > 0) observations for the weighted mean
        let (mut wmn, mut wmx, mut wm_m) = (f64::INFINITY, f64::NEG_INFINITY, 0f64);
        let mut wsum_pos = false;
        if !self.ws.is_empty() {
            let ws = &self.ws[range.0..range.1];
            for (&x, &w) in xs.iter().zip(ws.iter()) {
                ymn = ymn.min(w);
                ymx = ymx.max(w);
                ym = ym.max(w.abs());
                if w > 0. {
                    wsum_pos = true;
                    wmn = wmn.min(x);
                    wmx = wmx.max(x);
                    wm_m = wm_m.max(x.abs());
                }
            }
        }
        let fail = |what: &str, stat: Stat, got: f64, msg: String| -> Result<(), Viol> {
            Err(Viol::new(
                format!("{}:{}:{}", E::NAME, stat.name(), what),
                format!("node {} [{}..{}) n={}: {}::{} = {} {}", id, range.0, range.1, n, E::NAME, stat.name(), hex(got), msg),
            ))
        };
        let weights_nonneg = self.ws.is_empty() || self.ws[range.0..range.1].iter().all(|&w| w >= 0.);
        let is_weighted = E::NAME.starts_with("Weighted");
        for (stat, got) in acc.stats_vec() {
            match stat {
                Stat::PopVar | Stat::VarOfMean | Stat::Central(2) | Stat::PopVarX | Stat::PopVarY => {
                    if !(got >= 0.) {
                        return fail("negative", stat, got, "is negative or NaN".into());
                    }
                }
                Stat::SampleVar | Stat::SampleVarX | Stat::SampleVarY => {
                    if n >= 2 && !(got >= 0.) {
                        return fail("negative", stat, got, "is negative or NaN".into());
                    }
                }
                Stat::Error => {
                    if got.is_nan() || got < 0. {
                        return fail("not_real", stat, got, "is not a non-negative real number".into());
                    }
                }
                Stat::Mean | Stat::MeanX => {
                    let tol = 16. * nf * U * m;
                    if !(got >= mn - tol && got <= mx + tol) {
                        return fail("outside_range", stat, got, format!("outside [{:e}, {:e}] +- {:e}", mn, mx, tol));
                    }
                }
                Stat::MeanY => {
                    let tol = 16. * nf * U * ym;
                    if !(got >= ymn - tol && got <= ymx + tol) {
                        return fail("outside_range", stat, got, format!("outside [{:e}, {:e}] +- {:e}", ymn, ymx, tol));
                    }
                }
                Stat::WMean if is_weighted && weights_nonneg && wsum_pos => {
                    let tol = 32. * nf * U * m;
                    if !(got >= wmn - tol && got <= wmx + tol) {
                        // products weight*mean below the smallest normal number: see known finding K1
                        let wsum: f64 = self.ws[range.0..range.1].iter().sum();
                        let regime = if wm_m * wsum < 1e-300 { "outside_range:underflow" } else { "outside_range" };
                        return fail(
                            regime,
                            stat,
                            got,
                            format!("outside the range [{:e}, {:e}] +- {:e} of the contributing observations", wmn, wmx, tol),
                        );
                    }
                }
                Stat::EffLen if is_weighted && weights_nonneg && wsum_pos => {
                    let slack = nf * 2f64.powi(-50);
                    if !(got >= 1. * (1. - slack) && got <= nf * (1. + slack)) {
                        return fail("outside_range", stat, got, format!("outside [1, {}]", n));
                    }
                }
                Stat::VarWMean if is_weighted && weights_nonneg && wsum_pos && n >= 2 => {
                    if !(got >= 0.) {
                        return fail("negative", stat, got, "is negative or NaN".into());
                    }
                }
                Stat::WError if is_weighted && weights_nonneg && wsum_pos && n >= 2 => {
                    if got.is_nan() || got < 0. {
                        return fail("not_real", stat, got, "is not a non-negative real number".into());
                    }
                }
                _ => {}
            }
        }
        Ok(())
    }
}

// ---------------------------------------------------------------------------------
// C20: ingestion path twin, estimate() == headline
// ---------------------------------------------------------------------------------

struct IngestHooks<'a, I> {
    data: &'a [I],
    st: &'a mut Stats,
}

impl<'a, E: Est> Hooks<E> for IngestHooks<'a, E::Item> {
    fn leaf_done(&mut self, id: usize, range: (usize, usize), acc: &E) -> Result<(), Viol> {
        let mut twin = E::fresh();
        for &x in &self.data[range.0..range.1] {
            twin.push(x);
        }
        self.st.oracle_evals += 1;
        if let Some(d) = bits_diff(acc, &twin) {
            return Err(Viol::new(
                format!("{}:ingestion_path", E::NAME),
                format!("leaf {} [{}..{}): built through its ingestion path vs. plain add loop: {}", id, range.0, range.1, d),
            ));
        }
        if acc.count() != twin.count() {
            return Err(Viol::new(
                format!("{}:ingestion_path_len", E::NAME),
                format!("leaf {}: len {:?} vs add-loop twin {:?}", id, acc.count(), twin.count()),
            ));
        }
        Ok(())
    }
    fn node_done(&mut self, id: usize, _range: (usize, usize), acc: &E) -> Result<(), Viol> {
        if let Some((est, acc_v)) = acc.headline() {
            if !same_bits(est, acc_v) {
                return Err(Viol::new(
                    format!("{}:estimate", E::NAME),
                    format!("node {}: Estimate::estimate() = {} but the headline accessor = {}", id, hex(est), hex(acc_v)),
                ));
            }
        }
        Ok(())
    }
}

// ---------------------------------------------------------------------------------
// C18 (worker level): crash/restore of accumulators inside the reduction
// ---------------------------------------------------------------------------------

struct RestoreHooks<'a> {
    st: &'a mut Stats,
    /// statistics of every finished node in order of completion
    log: Vec<(usize, Vec<(Stat, f64)>, Option<u64>)>,
}

impl<'a, E: Est> Hooks<E> for RestoreHooks<'a> {
    fn restored(&mut self, id: usize, before: &E, json: &str, after: &E) -> Result<(), Viol> {
        self.st.bump("fault.crash_restart_worker");
        self.st.bump(crate::medium::KEYS[crate::medium::pick(json) as usize]);
        self.st.oracle_evals += 1;
        if let Some(d) = bits_diff(before, after) {
            return Err(Viol::new(
                format!("{}:roundtrip_statistic", E::NAME),
                format!("node {}: statistic changed by serde round trip: {} json={}", id, d, json),
            ));
        }
        if before.debug() != after.debug() {
            return Err(Viol::new(
                format!("{}:roundtrip_state", E::NAME),
                format!("node {}: state changed by serde round trip: {} -> {}", id, before.debug(), after.debug()),
            ));
        }
        if before.to_json() != json {
            return Err(Viol::new(
                format!("{}:serialize_modifies", E::NAME),
                format!("node {}: serialising twice gives different output", id),
            ));
        }
        Ok(())
    }
    fn node_done(&mut self, id: usize, _range: (usize, usize), acc: &E) -> Result<(), Viol> {
        self.log.push((id, acc.stats_vec(), acc.count()));
        Ok(())
    }
    fn restore_skipped(&mut self, _id: usize) {
        self.st.bump("probe.checkpoint_nonfinite_skipped");
    }
}

// ---------------------------------------------------------------------------------
// execution of a trace under a property
// ---------------------------------------------------------------------------------

pub fn guarded<F: FnOnce() -> Result<(), Viol>>(ty: &str, f: F) -> Result<(), Viol> {
    match catch_unwind(AssertUnwindSafe(f)) {
        Ok(r) => r,
        Err(p) => {
            let msg = crate::framework::panic_message(&p);
            let loc = crate::framework::last_panic_location();
            if crate::framework::is_harness_location(&loc) {
                Err(Viol::new("harness", format!("harness code panicked at {}: {}", loc, msg)))
            } else {
                Err(Viol::new(format!("{}:panic", ty), format!("estimator code panicked at {}: {}", loc, msg)))
            }
        }
    }
}

impl RScenario {
    pub fn execute(&self, tr: &RTrace, st: &mut Stats) -> Option<Viol> {
        let no_faults = RunCfg { apply_restores: false };
        let tree = &tr.tree;
        let nn = tree.nodes.len();
        let root = tree.root;
        match self.prop {
            RProp::C02 => {
                let data = tr.scalar();
                let cache = ExactCache::new(&data, nn);
                let layout = tree.layout();
                let plain_join: Vec<bool> = tree.nodes.iter().map(|n| matches!(n, Node::Join { tail, .. } if tail.is_empty())).collect();
                let mut res: Result<(), Viol> = Ok(());
                crate::for_moment_types!(T => {
                    if res.is_ok() {
                        res = guarded(T::NAME, || {
                            let mut h = EnvHooks { exact: &cache, root, st, ty: T::NAME, layout: layout.clone(), plain_join: plain_join.clone() };
                            run_tree::<T, _>(tree, &data, &no_faults, &mut h).map(|_| ())
                        });
                    }
                });
                res.err()
            }
            RProp::C08 => {
                let data = tr.pairs();
                let cache = PairCache::new(&data, nn, true);
                let mut res: Result<(), Viol> = Ok(());
                macro_rules! go { ($T:ty) => {
                    if res.is_ok() {
                        res = guarded(<$T>::NAME, || {
                            let mut h = PairEnvHooks { exact: &cache, root, st, weighted: true };
                            run_tree::<$T, _>(tree, &data, &no_faults, &mut h).map(|_| ())
                        });
                    }
                } }
                go!(average::WeightedMean);
                go!(average::WeightedMeanWithError);
                if res.is_ok() {
                    res = self.zero_weight_twin(tr, &data, st);
                }
                res.err()
            }
            RProp::C09 => {
                let data = tr.pairs();
                let cache = PairCache::new(&data, nn, false);
                let mut res = guarded("Covariance", || {
                    let mut h = PairEnvHooks { exact: &cache, root, st, weighted: false };
                    run_tree::<average::Covariance, _>(tree, &data, &no_faults, &mut h).map(|_| ())
                });
                if res.is_ok() {
                    // x/y swapped twin under the same tree: x/y statistics swap, covariance and
                    // correlation stay inside the envelope of the same exact values
                    let sw: Vec<(f64, f64)> = data.iter().map(|p| (p.1, p.0)).collect();
                    let cache2 = PairCache::new(&sw, nn, false);
                    res = guarded("Covariance", || {
                        let mut h = PairEnvHooks { exact: &cache2, root, st, weighted: false };
                        run_tree::<average::Covariance, _>(tree, &sw, &no_faults, &mut h).map(|_| ())
                    })
                    .map_err(|v| Viol::new(format!("{}:swapped", v.class), format!("x/y swapped twin: {}", v.detail)));
                    st.bump("probe.swap_twin");
                }
                res.err()
            }
            RProp::C11Scalar => {
                let data = tr.scalar();
                let mut res: Result<(), Viol> = Ok(());
                let small = data.len() <= 64;
                crate::for_scalar_types!(T => {
                    if res.is_ok() {
                        res = guarded(T::NAME, || {
                            let mut h = MergeHooks { st, probe_all: small };
                            run_tree::<T, _>(tree, &data, &no_faults, &mut h).map(|_| ())
                        });
                    }
                });
                res.err()
            }
            RProp::C11Pair => {
                let data = tr.pairs();
                let mut res: Result<(), Viol> = Ok(());
                let small = data.len() <= 64;
                crate::for_pair_types!(T => {
                    if res.is_ok() {
                        res = guarded(T::NAME, || {
                            let mut h = MergeHooks { st, probe_all: small };
                            run_tree::<T, _>(tree, &data, &no_faults, &mut h).map(|_| ())
                        });
                    }
                });
                res.err()
            }
            RProp::C14 => {
                let data = tr.scalar();
                let mut res = guarded("Min", || {
                    let mut h = MinMaxHooks { data: &data, st };
                    run_tree::<average::Min, _>(tree, &data, &no_faults, &mut h).map(|_| ())
                });
                if res.is_ok() {
                    res = guarded("Max", || {
                        let mut h = MinMaxHooks { data: &data, st };
                        run_tree::<average::Max, _>(tree, &data, &no_faults, &mut h).map(|_| ())
                    });
                }
                // a parallel collect is a history of add (fold) and merge (reduce) as well: the same
                // data and tree through rayon's real consumers, by value and by reference
                let no_tails = tree.nodes.iter().all(|n| match n {
                    Node::Join { tail, .. } => tail.is_empty(),
                    _ => true,
                });
                if res.is_ok() && no_tails {
                    let (mut mn, mut mx) = (f64::INFINITY, f64::NEG_INFINITY);
                    for &x in data.iter().filter(|x| !x.is_nan()) {
                        mn = mn.min(x);
                        mx = mx.max(x);
                    }
                    st.bump("probe.parallel_collect_min_max");
                    res = guarded("Min", || {
                        for (how, got) in [
                            ("collect over f64", crate::drv_rayon::collect_val::<average::Min>(tree, &data, crate::drv_rayon::Adaptor::None).min()),
                            ("collect over &f64", crate::drv_rayon::collect_ref::<average::Min>(tree, &data, crate::drv_rayon::Adaptor::None).min()),
                        ] {
                            if !(got == mn) {
                                return Err(Viol::new("Min:Min:parallel_collect", format!("parallel {}: min() = {} but the exact minimum of the non-NaN observations is {}", how, hex(got), hex(mn))));
                            }
                        }
                        Ok(())
                    });
                    if res.is_ok() {
                        res = guarded("Max", || {
                            for (how, got) in [
                                ("collect over f64", crate::drv_rayon::collect_val::<average::Max>(tree, &data, crate::drv_rayon::Adaptor::None).max()),
                                ("collect over &f64", crate::drv_rayon::collect_ref::<average::Max>(tree, &data, crate::drv_rayon::Adaptor::None).max()),
                            ] {
                                if !(got == mx) {
                                    return Err(Viol::new("Max:Max:parallel_collect", format!("parallel {}: max() = {} but the exact maximum of the non-NaN observations is {}", how, hex(got), hex(mx))));
                                }
                            }
                            Ok(())
                        });
                    }
                }
                res.err()
            }
            RProp::C17Scalar => {
                let data = tr.scalar();
                let mut res: Result<(), Viol> = Ok(());
                crate::for_moment_types!(T => {
                    if res.is_ok() {
                        res = guarded(T::NAME, || {
                            let mut h = InvHooks { xs: &data, ws: &[], st };
                            run_tree::<T, _>(tree, &data, &no_faults, &mut h).map(|_| ())
                        });
                    }
                });
                res.err()
            }
            RProp::C17Pair => {
                let data = tr.pairs();
                let xs: Vec<f64> = data.iter().map(|p| p.0).collect();
                let ws: Vec<f64> = data.iter().map(|p| p.1).collect();
                let mut res: Result<(), Viol> = Ok(());
                crate::for_pair_types!(T => {
                    if res.is_ok() {
                        res = guarded(T::NAME, || {
                            let mut h = InvHooks { xs: &xs, ws: &ws, st };
                            run_tree::<T, _>(tree, &data, &no_faults, &mut h).map(|_| ())
                        });
                    }
                });
                res.err()
            }
            RProp::C20Scalar => {
                let data = tr.scalar();
                let mut res: Result<(), Viol> = Ok(());
                crate::for_scalar_types!(T => {
                    if res.is_ok() {
                        res = guarded(T::NAME, || {
                            let mut h = IngestHooks { data: &data[..], st };
                            run_tree::<T, _>(tree, &data, &no_faults, &mut h).map(|_| ())
                        });
                    }
                });
                res.err()
            }
            RProp::C20Pair => {
                let data = tr.pairs();
                let mut res: Result<(), Viol> = Ok(());
                crate::for_pair_types!(T => {
                    if res.is_ok() {
                        res = guarded(T::NAME, || {
                            let mut h = IngestHooks { data: &data[..], st };
                            run_tree::<T, _>(tree, &data, &no_faults, &mut h).map(|_| ())
                        });
                    }
                });
                res.err()
            }
            RProp::C18Scalar => {
                let data = tr.scalar();
                let mut res: Result<(), Viol> = Ok(());
                crate::for_scalar_types!(T => {
                    if res.is_ok() {
                        res = guarded(T::NAME, || restore_twin::<T>(tree, &data, st));
                    }
                });
                res.err()
            }
            RProp::C18Pair => {
                let data = tr.pairs();
                let mut res: Result<(), Viol> = Ok(());
                crate::for_pair_types!(T => {
                    if res.is_ok() {
                        res = guarded(T::NAME, || restore_twin::<T>(tree, &data, st));
                    }
                });
                res.err()
            }
        }
    }

    /// C08: the stream with every zero-weight pair removed, executed under the same tree
    /// restricted to the remaining items, must give the same weighted statistics.
    fn zero_weight_twin(&self, tr: &RTrace, data: &[(f64, f64)], st: &mut Stats) -> Result<(), Viol> {
        if !data.iter().any(|p| p.1 == 0.) || !data.iter().all(|p| p.1 >= 0.) {
            return Ok(());
        }
        st.bump("probe.zero_weight_twin");
        if data.first().map_or(false, |p| p.1 == 0.) {
            st.bump("probe.zero_weight_first");
        }
        let keep: Vec<bool> = data.iter().map(|p| p.1 != 0.).collect();
        let reduced: Vec<(f64, f64)> = data.iter().zip(keep.iter()).filter(|(_, &k)| k).map(|(p, _)| *p).collect();
        // restrict the tree: shrink every piece to the kept items it covers
        let mut t2 = tr.tree.clone();
        let layout = tr.tree.layout();
        let count = |lo: usize, hi: usize| keep[lo..hi].iter().filter(|&&k| k).count();
        let mut zero_chunk_merges = 0usize;
        for (id, node) in t2.nodes.iter_mut().enumerate() {
            match node {
                Node::Leaf { pieces } => {
                    let mut pos = layout[id].0;
                    for p in pieces.iter_mut() {
                        let l = p.len;
                        p.len = count(pos, pos + l);
                        pos += l;
                    }
                }
                Node::Join { left, right, tail, .. } => {
                    let (llo, lhi) = layout[*left];
                    let (rlo, rhi) = layout[*right];
                    if (lhi > llo && count(llo, lhi) == 0) || (rhi > rlo && count(rlo, rhi) == 0) {
                        zero_chunk_merges += 1;
                    }
                    let mut pos = rhi;
                    for p in tail.iter_mut() {
                        let l = p.len;
                        p.len = count(pos, pos + l);
                        pos += l;
                    }
                }
            }
        }
        if zero_chunk_merges > 0 {
            st.bump("probe.whole_zero_weight_chunk");
        }
        let no_faults = RunCfg { apply_restores: false };
        let m = data.iter().fold(0f64, |a, p| a.max(p.0.abs()));
        // A whole zero-weight chunk goes through merge, where a correct implementation may
        // round once (w*a/w); a zero-weight add must contribute exactly nothing.
        let tol = 8. * U * m * zero_chunk_merges as f64;
        let cmp = |name: &str, stat: Stat, a: f64, b: f64| -> Result<(), Viol> {
            let same = a == b || (a.is_nan() && b.is_nan()) || (a - b).abs() <= tol;
            if same {
                Ok(())
            } else {
                Err(Viol::new(
                    format!("{}:{}:zero_weight_changes_weighted", name, stat.name()),
                    format!(
                        "{}::{} = {} with the zero-weight observations, {} without them (same tree restricted to the remaining items)",
                        name,
                        stat.name(),
                        hex(a),
                        hex(b)
                    ),
                ))
            }
        };
        guarded("WeightedMean", || {
            let a = run_tree::<average::WeightedMean, _>(&tr.tree, data, &no_faults, &mut crate::exec::NoHooks)?;
            let b = run_tree::<average::WeightedMean, _>(&t2, &reduced, &no_faults, &mut crate::exec::NoHooks)?;
            cmp("WeightedMean", Stat::WMean, a.mean(), b.mean())?;
            cmp("WeightedMean", Stat::SumW, a.sum_weights(), b.sum_weights())
        })?;
        guarded("WeightedMeanWithError", || {
            let a = run_tree::<average::WeightedMeanWithError, _>(&tr.tree, data, &no_faults, &mut crate::exec::NoHooks)?;
            let b = run_tree::<average::WeightedMeanWithError, _>(&t2, &reduced, &no_faults, &mut crate::exec::NoHooks)?;
            cmp("WeightedMeanWithError", Stat::WMean, a.weighted_mean(), b.weighted_mean())?;
            cmp("WeightedMeanWithError", Stat::SumW, a.sum_weights(), b.sum_weights())?;
            cmp("WeightedMeanWithError", Stat::SumW2, a.sum_weights_sq(), b.sum_weights_sq())?;
            if a.len() != data.len() as u64 {
                return Err(Viol::new("WeightedMeanWithError:len", format!("len()={} expected {}", a.len(), data.len())));
            }
            Ok(())
        })
    }
}

fn restore_twin<E: Est>(tree: &TreeTrace, data: &[E::Item], st: &mut Stats) -> Result<(), Viol> {
    let mut h1 = RestoreHooks { st, log: vec![] };
    run_tree::<E, _>(tree, data, &RunCfg { apply_restores: true }, &mut h1)?;
    let log1 = std::mem::take(&mut h1.log);
    let mut st2 = Stats::default();
    let mut h2 = RestoreHooks { st: &mut st2, log: vec![] };
    run_tree::<E, _>(tree, data, &RunCfg { apply_restores: false }, &mut h2)?;
    let log2 = h2.log;
    if log1.len() != log2.len() {
        return Err(Viol::new("harness", "restore twin logs differ in length"));
    }
    for (a, b) in log1.iter().zip(log2.iter()) {
        if a.0 != b.0 {
            return Err(Viol::new("harness", "restore twin logs differ in order"));
        }
        if a.2 != b.2 {
            return Err(Viol::new(
                format!("{}:restored_len", E::NAME),
                format!("node {}: len {:?} with crash/restore faults, {:?} uninterrupted", a.0, a.2, b.2),
            ));
        }
        if let Some((s, x, y)) = stats_identical(&a.1, &b.1) {
            // states with non-finite fields are outside the precondition; they can only arise
            // from non-finite statistics, which are then non-finite in both runs
            return Err(Viol::new(
                format!("{}:restored_continuation", E::NAME),
                format!(
                    "node {}: {} = {} in the run with crash/restore faults but {} uninterrupted",
                    a.0,
                    s.name(),
                    hex(x),
                    hex(y)
                ),
            ));
        }
    }
    Ok(())
}

// ---------------------------------------------------------------------------------
// generation
// ---------------------------------------------------------------------------------

fn pick_policy(rng: &mut Rng, n: usize) -> Policy {
    let chain_ok = n <= 2048;
    if rng.below(11) == 0 || (n > 4000 && rng.chance(0.5)) {
        return Policy::Lopsided;
    }
    match rng.below(20) {
        0..=6 => Policy::Length,
        7..=12 => Policy::Composition,
        13..=14 => Policy::RandomSplit,
        15 => {
            if chain_ok {
                Policy::LeftChain
            } else {
                Policy::Balanced
            }
        }
        16 => {
            if chain_ok {
                Policy::RightChain
            } else {
                Policy::Balanced
            }
        }
        17 => Policy::Balanced,
        _ => Policy::Single,
    }
}

pub fn gen_cfg(rng: &mut Rng, n: usize, prop: RProp) -> GenCfg {
    let threads = match rng.below(6) {
        0 => 1,
        1 => 2,
        2 => 3,
        3 => 4,
        4 => 8,
        _ => rng.range(1, 16),
    };
    let policy = pick_policy(rng, n);
    let min_len = match rng.below(6) {
        0..=2 => 1,
        3 => 2,
        4 => rng.range(1, 8),
        _ => rng.range(1, (n / 4).max(1)),
    };
    let max_len = match rng.below(5) {
        0..=2 => usize::MAX,
        3 => rng.range(1, 8),
        _ => rng.range(1, n.max(1)),
    };
    let (paths, swap_rate, tail_rate, restore_rate) = match prop {
        // tails = observations added to a merged estimator afterwards: the merged estimator must
        // behave like one that has seen the concatenated data also for what comes later
        RProp::C02 | RProp::C08 | RProp::C09 => (if rng.chance(0.3) { PathMix::All } else { PathMix::AddOnly }, 0., if rng.chance(0.3) { 0.3 } else { 0. }, 0.),
        RProp::C11Scalar | RProp::C11Pair => (if rng.chance(0.5) { PathMix::All } else { PathMix::AddOnly }, 0., if rng.chance(0.5) { 0.3 } else { 0. }, 0.),
        RProp::C14 => (PathMix::WithFromValue, if rng.chance(0.7) { 0.5 } else { 0. }, if rng.chance(0.5) { 0.3 } else { 0. }, 0.),
        RProp::C17Scalar | RProp::C17Pair => (if rng.chance(0.3) { PathMix::All } else { PathMix::AddOnly }, 0., if rng.chance(0.3) { 0.3 } else { 0. }, 0.),
        RProp::C18Scalar | RProp::C18Pair => (if rng.chance(0.5) { PathMix::All } else { PathMix::AddOnly }, 0., if rng.chance(0.5) { 0.3 } else { 0. }, [0.1, 0.3, 0.6][rng.usize(3)]),
        RProp::C20Scalar | RProp::C20Pair => (PathMix::All, 0., if rng.chance(0.5) { 0.3 } else { 0. }, 0.),
    };
    GenCfg {
        n,
        threads,
        min_len,
        max_len,
        policy,
        injected_root: rng.chance(0.3),
        pct: if rng.chance(0.3) { Some(rng.range(0, 3)) } else { None },
        stall_rate: if rng.chance(0.4) { 0.05 } else { 0. },
        paths,
        max_pieces: if rng.chance(0.5) { 1 } else { 4 },
        tail_rate,
        swap_rate,
        restore_rate,
        reclone_rate: if rng.chance(0.2) { 0.2 } else { 0. },
    }
}

impl RScenario {
    fn generate(&self, seed: u64, tier: Tier, st: &mut Stats) -> (RTrace, GenStats) {
        let mut rng = Rng::new(seed);
        let big = match (tier, self.prop) {
            (Tier::Quick, _) => 1024,
            (Tier::Thorough, _) => 4096,
        };
        let mut n = gen::pick_n(&mut rng, big);
        // the order-10 exact oracle is costly: keep most C02 runs small
        if matches!(self.prop, RProp::C02) && n > 512 && rng.chance(0.7) {
            n = rng.range(3, 64);
        }
        // rarely: a long sequence, so that merged chunks pass 2^16 elements
        let long = matches!(self.prop, RProp::C02 | RProp::C09 | RProp::C08) && rng.below(6000) == 0;
        if long {
            // log-uniform over 10^4 .. 3*10^5 (10^6 in thorough)
            let hi: f64 = match tier {
                Tier::Quick => if matches!(self.prop, RProp::C02) { 1_000_000.0 } else { 300_000.0 },
                Tier::Thorough => 1_000_000.0,
            };
            n = if rng.chance(0.5) { (10_000.0 * (hi / 10_000.0).powf(rng.f())) as usize } else { rng.range((hi * 0.3) as usize, hi as usize) };
            st.bump("probe.long_input_ge_10k");
        }
        let (data, pair, meta): (Vec<(u64, u64)>, bool, String) = match self.prop {
            RProp::C02 | RProp::C11Scalar | RProp::C20Scalar | RProp::C18Scalar => {
                let (d, m) = gen::scalar_c01(&mut rng, n);
                (d.iter().map(|x| (x.to_bits(), 0)).collect(), false, format!("{:?}", m))
            }
            RProp::C17Scalar => {
                let (d, m) = gen::scalar_c17(&mut rng, n);
                (d.iter().map(|x| (x.to_bits(), 0)).collect(), false, format!("{:?}", m))
            }
            RProp::C14 => {
                let d = gen::scalar_c14(&mut rng, n);
                (d.iter().map(|x| (x.to_bits(), 0)).collect(), false, "c14".into())
            }
            RProp::C11Pair | RProp::C20Pair | RProp::C18Pair if rng.chance(0.4) => {
                // bit-for-bit properties have no numeric domain issue: also pairs read as (x, y)
                // and weights over 200 orders of magnitude
                if rng.chance(0.5) {
                    let (d, m, mode) = gen::pairs_c09(&mut rng, n);
                    (d.iter().map(|p| (p.0.to_bits(), p.1.to_bits())).collect(), true, format!("{:?} mode={}", m, mode))
                } else {
                    let (xs, m) = gen::scalar_c01(&mut rng, n);
                    let ws = gen::weights_c17(&mut rng, n);
                    (xs.iter().zip(ws.iter()).map(|(x, w)| (x.to_bits(), w.to_bits())).collect(), true, format!("{:?} wide weights", m))
                }
            }
            RProp::C08 | RProp::C11Pair | RProp::C20Pair | RProp::C18Pair => {
                let (d, m, k) = gen::weighted_c08(&mut rng, n);
                (d.iter().map(|p| (p.0.to_bits(), p.1.to_bits())).collect(), true, format!("{:?} {:?}", m, k))
            }
            RProp::C17Pair => {
                // x on the extended domain; second coordinate: weights >= 0 (also read as y)
                let (xs, m) = gen::scalar_c17(&mut rng, n);
                if rng.chance(0.5) {
                    let (ws, _, k) = gen::weighted_c08(&mut rng, n);
                    (xs.iter().zip(ws.iter()).map(|(x, w)| (x.to_bits(), w.1.to_bits())).collect(), true, format!("{:?} {:?}", m, k))
                } else {
                    let ws = gen::weights_c17(&mut rng, n);
                    (xs.iter().zip(ws.iter()).map(|(x, w)| (x.to_bits(), w.to_bits())).collect(), true, format!("{:?} wide weights", m))
                }
            }
            RProp::C09 => {
                let (d, m, mode) = gen::pairs_c09(&mut rng, n);
                (d.iter().map(|p| (p.0.to_bits(), p.1.to_bits())).collect(), true, format!("{:?} mode={}", m, mode))
            }
        };
        let mut cfg = gen_cfg(&mut rng, n, self.prop);
        if long {
            cfg.policy = match rng.below(10) {
                0..=3 => Policy::Length,
                4 => Policy::Balanced,
                5..=6 => Policy::Lopsided,
                _ => Policy::Composition,
            };
            cfg.threads = rng.pick(&[1usize, 2, 3, 4, 8]);
            cfg.min_len = if rng.chance(0.5) { 1 } else { rng.range(1000, 70_000) };
            cfg.max_pieces = 1;
            cfg.pct = None;
        }
        let (tree, gs) = generate(&mut rng, &cfg);
        st.sim_events += gs.ticks;
        st.add("fault.steal", gs.steals);
        st.add("fault.stall", gs.stalls);
        st.add("fault.empty_worker", gs.empty_leaves);
        st.add("probe.right_half_not_stolen", gs.popped_own);
        st.add("probe.one_item_leaf", gs.one_item_leaves);
        st.add("probe.tail_adds_after_merge", gs.tails);
        st.add("probe.swapped_reduce", gs.swaps);
        st.add("probe.leaves", gs.leaves);
        if tree.depth() >= 8 {
            st.bump("probe.tree_depth_ge_8");
        }
        let injected_panics = tree
            .nodes
            .iter()
            .map(|n| match n {
                Node::Leaf { pieces } => pieces.iter().filter(|p| p.path == Path::ExtendPanicsThenRetry).count(),
                Node::Join { tail, .. } => tail.iter().filter(|p| p.path == Path::ExtendPanicsThenRetry).count(),
            })
            .sum::<usize>();
        st.add("fault.iterator_panic_in_extend", injected_panics as u64);
        match cfg.policy {
            Policy::Length => st.bump("policy.length_splitter"),
            Policy::Composition => st.bump("policy.composition"),
            Policy::RandomSplit => st.bump("policy.random_split"),
            Policy::LeftChain => st.bump("policy.left_chain"),
            Policy::RightChain => st.bump("policy.right_chain"),
            Policy::Balanced => st.bump("policy.balanced"),
            Policy::Lopsided => st.bump("policy.lopsided"),
            Policy::Single => st.bump("policy.single_pass"),
        }
        let mut tr = RTrace {
            scenario: self.prop.scen_name().to_string(),
            pair,
            data,
            tree,
            meta: format!("{} policy={:?} threads={} min_len={} max_len={} pct={:?}", meta, cfg.policy, cfg.threads, cfg.min_len, cfg.max_len, cfg.pct),
            data_readable: vec![],
        };
        tr.refresh_readable();
        (tr, gs)
    }
}

fn prune(tree: &TreeTrace) -> TreeTrace {
    // renumber reachable nodes in pre-order; drop the schedule entries of removed nodes
    let mut map = vec![usize::MAX; tree.nodes.len()];
    let mut order_nodes = vec![];
    let mut st = vec![tree.root];
    while let Some(i) = st.pop() {
        map[i] = order_nodes.len();
        order_nodes.push(i);
        if let Node::Join { left, right, .. } = &tree.nodes[i] {
            st.push(*right);
            st.push(*left);
        }
    }
    let nodes = order_nodes
        .iter()
        .map(|&i| match &tree.nodes[i] {
            Node::Leaf { pieces } => Node::Leaf { pieces: pieces.clone() },
            Node::Join { left, right, stolen, swap, tail, restore } => Node::Join {
                left: map[*left],
                right: map[*right],
                stolen: *stolen,
                swap: *swap,
                tail: tail.clone(),
                restore: *restore,
            },
        })
        .collect();
    let order = tree.order.iter().filter_map(|&o| {
        let o = o as usize;
        if o < map.len() && map[o] != usize::MAX { Some(map[o] as u32) } else { None }
    }).collect();
    TreeTrace { nodes, root: 0, order }
}

/// remove data items [lo,hi) from the trace (tree piece lengths follow)
fn remove_items(tr: &RTrace, lo: usize, hi: usize) -> RTrace {
    let mut out = tr.clone();
    let layout = tr.tree.layout();
    let cut = |pieces: &mut Vec<Piece>, start: usize| {
        let mut pos = start;
        for p in pieces.iter_mut() {
            let (a, b) = (pos, pos + p.len);
            let ov = b.min(hi).saturating_sub(a.max(lo));
            pos = b;
            p.len -= ov;
        }
    };
    for (id, node) in out.tree.nodes.iter_mut().enumerate() {
        match node {
            Node::Leaf { pieces } => cut(pieces, layout[id].0),
            Node::Join { right, tail, .. } => cut(tail, layout[*right].1),
        }
    }
    out.data.drain(lo..hi);
    out
}

fn simpler_value(x: f64) -> Vec<f64> {
    let mut v = vec![];
    if x.is_finite() && x != 0. {
        v.push(0.0);
        let r = x.round();
        if r != x && r.abs() < 1e15 {
            v.push(r);
        }
        // fewer mantissa bits
        for keep in [8u32, 20, 36] {
            let mask = !((1u64 << (52 - keep)) - 1);
            let y = f64::from_bits(x.to_bits() & mask);
            if y != x {
                v.push(y);
            }
        }
    }
    v
}

#[derive(Clone, Debug)]
pub enum REdit {
    SingleLeaf,
    RemoveItems(usize, usize),
    Collapse(usize),
    DropOrder,
    PlainLeaf(usize),
    ClearPieceRestore(usize, usize),
    ClearSwap(usize),
    ClearJoinRestore(usize),
    PlainTail(usize, usize),
    SetValue(usize, bool, u64),
}

pub fn r_edits(tr: &RTrace) -> Vec<REdit> {
    let mut out = vec![];
    let n = tr.data.len();
    if tr.tree.nodes.len() > 1 {
        out.push(REdit::SingleLeaf);
    }
    let mut s = n / 2;
    while s >= 1 {
        let mut lo = 0;
        while lo + s <= n {
            out.push(REdit::RemoveItems(lo, lo + s));
            lo += s;
        }
        s /= 2;
    }
    let reach = tr.tree.reachable();
    for &id in &reach {
        if let Node::Join { .. } = &tr.tree.nodes[id] {
            out.push(REdit::Collapse(id));
        }
    }
    if !tr.tree.order.is_empty() {
        out.push(REdit::DropOrder);
    }
    for &id in &reach {
        match &tr.tree.nodes[id] {
            Node::Leaf { pieces } => {
                if pieces.len() != 1 || pieces[0].path != Path::AddLoop || pieces[0].restore || pieces[0].reclone {
                    out.push(REdit::PlainLeaf(id));
                }
                for (k, p) in pieces.iter().enumerate() {
                    if p.restore {
                        out.push(REdit::ClearPieceRestore(id, k));
                    }
                }
            }
            Node::Join { swap, restore, tail, .. } => {
                if *swap {
                    out.push(REdit::ClearSwap(id));
                }
                if *restore {
                    out.push(REdit::ClearJoinRestore(id));
                }
                for (k, p) in tail.iter().enumerate() {
                    if p.restore || p.reclone || p.path != Path::AddLoop {
                        out.push(REdit::PlainTail(id, k));
                    }
                }
            }
        }
    }
    if n <= 64 {
        for i in 0..n {
            for y in simpler_value(f64::from_bits(tr.data[i].0)) {
                out.push(REdit::SetValue(i, false, y.to_bits()));
            }
            if tr.pair {
                for y in simpler_value(f64::from_bits(tr.data[i].1)) {
                    out.push(REdit::SetValue(i, true, y.to_bits()));
                }
            }
        }
    }
    out
}

pub fn r_apply(tr: &RTrace, e: &REdit) -> Option<RTrace> {
    let mut t;
    match e {
        REdit::SingleLeaf => {
            t = tr.clone();
            t.tree = TreeTrace::single_leaf(tr.data.len());
        }
        REdit::RemoveItems(lo, hi) => {
            t = remove_items(tr, *lo, *hi);
        }
        REdit::Collapse(id) => {
            t = tr.clone();
            let layout = tr.tree.layout();
            let len = layout[*id].1 - layout[*id].0;
            t.tree.nodes[*id] = Node::Leaf { pieces: vec![Piece { path: Path::AddLoop, len, restore: false, reclone: false }] };
            t.tree = prune(&t.tree);
        }
        REdit::DropOrder => {
            t = tr.clone();
            t.tree.order.clear();
        }
        REdit::PlainLeaf(id) => {
            t = tr.clone();
            let len = match &tr.tree.nodes[*id] {
                Node::Leaf { pieces } => pieces.iter().map(|p| p.len).sum(),
                _ => return None,
            };
            t.tree.nodes[*id] = Node::Leaf { pieces: vec![Piece { path: Path::AddLoop, len, restore: false, reclone: false }] };
        }
        REdit::ClearPieceRestore(id, k) => {
            t = tr.clone();
            if let Node::Leaf { pieces } = &mut t.tree.nodes[*id] {
                pieces[*k].restore = false;
            }
        }
        REdit::ClearSwap(id) => {
            t = tr.clone();
            if let Node::Join { swap, .. } = &mut t.tree.nodes[*id] {
                *swap = false;
            }
        }
        REdit::ClearJoinRestore(id) => {
            t = tr.clone();
            if let Node::Join { restore, .. } = &mut t.tree.nodes[*id] {
                *restore = false;
            }
        }
        REdit::PlainTail(id, k) => {
            t = tr.clone();
            if let Node::Join { tail, .. } = &mut t.tree.nodes[*id] {
                tail[*k].restore = false;
                tail[*k].reclone = false;
                tail[*k].path = Path::AddLoop;
            }
        }
        REdit::SetValue(i, second, bits) => {
            t = tr.clone();
            if *second {
                t.data[*i].1 = *bits;
            } else {
                t.data[*i].0 = *bits;
            }
        }
    }
    Some(t)
}

impl Scenario for RScenario {
    fn name(&self) -> &'static str {
        self.prop.scen_name()
    }

    fn run(&self, seed: u64, _index: u64, tier: Tier, st: &mut Stats) -> (RunInfo, Option<Failure>) {
        let (tr, _gs) = self.generate(seed, tier, st);
        let nontrivial = tr.tree.n_joins() >= 1 || tr.tree.has_restores();
        let mut key = tr.tree.shape_hash();
        // distinct = (tree shape, data, fault placement)
        for d in &tr.data {
            key = (key ^ d.0 ^ d.1.rotate_left(7)).wrapping_mul(0x100000001b3);
        }
        if tr.data.len() == 6 && tr.tree.reachable().iter().all(|&i| match &tr.tree.nodes[i] {
            Node::Leaf { pieces } => pieces.iter().map(|p| p.len).sum::<usize>() > 0,
            Node::Join { tail, .. } => tail.is_empty(),
        }) {
            st.bump("probe.n6_nonempty_chunk_tree");
            if matches!(self.prop, RProp::C02) {
                // reach measure: 188 = sum_k C(5,k-1) * Catalan(k-1) trees over 6 items in non-empty chunks
                st.note("reach.distinct_n6_trees_of_188", tr.tree.shape_hash());
            }
        }
        let v = self.execute(&tr, st);
        let f = v.map(|viol| Failure { viol, trace: serde_json::to_value(&tr).unwrap() });
        (RunInfo { key, nontrivial }, f)
    }

    fn replay(&self, trace: &Value, st: &mut Stats) -> Result<Option<Viol>, String> {
        let tr: RTrace = serde_json::from_value(trace.clone()).map_err(|e| format!("bad R trace: {}", e))?;
        tr.tree.validate()?;
        if tr.tree.total_len() != tr.data.len() {
            return Err("trace tree and data disagree in length".into());
        }
        Ok(self.execute(&tr, st))
    }

    fn minimise(&self, trace: &Value, class: &str, budget: usize) -> (Value, Viol, usize) {
        let tr: RTrace = match serde_json::from_value(trace.clone()) {
            Ok(t) => t,
            Err(e) => return (trace.clone(), Viol::new("harness", format!("bad trace: {}", e)), 0),
        };
        let (mut t, v, tries) = crate::framework::minimise_typed(
            tr,
            class,
            budget,
            r_edits,
            r_apply,
            |t: &RTrace| t.data.len() + t.tree.nodes.len(),
            |t| {
                let mut st = Stats::default();
                self.execute(t, &mut st)
            },
        );
        t.refresh_readable();
        (serde_json::to_value(&t).unwrap(), v, tries)
    }

    fn sample(&self, seed: u64, tier: Tier) -> Value {
        let mut st = Stats::default();
        let (mut tr, _) = self.generate(seed, tier, &mut st);
        if tr.data.len() > 40 {
            // keep evidence files readable: show a small case
            for k in 1..200u64 {
                let (t2, _) = self.generate(crate::rng::mix(seed, k), tier, &mut st);
                if t2.data.len() <= 12 && t2.tree.n_joins() >= 2 {
                    tr = t2;
                    break;
                }
            }
        }
        tr.data.truncate(tr.data.len().min(4096));
        let v = serde_json::to_value(&tr).unwrap();
        v
    }

    fn rule(&self) -> String {
        format!(
            "{}: one run = one seeded execution of the simulated work-stealing pool (threads, splitter policy, steals, stalls, ingestion paths{}) over one generated data set; distinct = distinct (tree shape incl. chunk lengths, data bits); non-trivial = at least one merge or one injected fault",
            self.prop.scen_name(),
            if matches!(self.prop, RProp::C18Scalar | RProp::C18Pair) { ", crash/restore faults" } else { "" }
        )
    }
}
