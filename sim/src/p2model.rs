//! Reference model of one P-square step (Jain & Chlamtac 1985), used as a one-step
//! refinement oracle: the step starts from the IMPLEMENTATION's own pre-state (read
//! through its public serde form), so rounding differences cannot amplify through the
//! algorithm's discontinuities, while a wrong cell index, increment, sign or neighbour
//! is flagged at the first step at which it matters.
#![allow(dead_code)]

use crate::envelope::U;
use average::Quantile;

#[derive(Clone, Debug, PartialEq)]
pub struct QState {
    pub q: [f64; 5],
    pub n: [i64; 5],
    pub m: [f64; 5],
    pub dm: [f64; 5],
}

pub fn state(q: &Quantile) -> Result<QState, String> {
    let v = serde_json::to_value(q).map_err(|e| e.to_string())?;
    let f = |k: &str| -> Result<[f64; 5], String> {
        let a = v[k].as_array().ok_or_else(|| format!("serialised Quantile has no array field `{}`", k))?;
        if a.len() != 5 {
            return Err(format!("field `{}` has {} entries", k, a.len()));
        }
        let mut o = [0.0; 5];
        for i in 0..5 {
            o[i] = a[i].as_f64().ok_or_else(|| format!("field `{}`[{}] is not a finite number", k, i))?;
        }
        Ok(o)
    };
    let a = v["n"].as_array().ok_or("serialised Quantile has no array field `n`")?;
    if a.len() != 5 {
        return Err("field `n` length".into());
    }
    let mut n = [0i64; 5];
    for i in 0..5 {
        n[i] = a[i].as_i64().ok_or("field `n` not integer")?;
    }
    Ok(QState { q: f("q")?, n, m: f("m")?, dm: f("dm")? })
}

/// which branches the reference took (for reach probes)
#[derive(Default, Clone, Debug)]
pub struct StepInfo {
    pub new_min: bool,
    pub new_max: bool,
    pub parabolic: u8,
    pub linear: u8,
    pub moved_down: u8,
    pub moved_up: u8,
    pub tie_with_marker: bool,
    pub ambiguous: u8,
    pub exact_tie: u8,
    pub exact_tie_mandatory: u8,
}

/// Expected state right after the fifth observation.
pub fn initial_state(p: f64, first5: &[f64]) -> QState {
    let mut s = [first5[0], first5[1], first5[2], first5[3], first5[4]];
    s.sort_by(|a, b| a.partial_cmp(b).unwrap());
    QState {
        q: s,
        n: [1, 2, 3, 4, 5],
        m: [1., 1. + 2. * p, 1. + 4. * p, 3. + 2. * p, 5.],
        dm: [0., p / 2., p, (1. + p) / 2., 1.],
    }
}

/// Exact (rational) comparison of the parabolic prediction with the two neighbouring
/// heights: returns (sign(par - q0), sign(par - q2)) where
/// par = q1 + d/(n2-n0) * ((n1-n0+d)(q2-q1)/(n2-n1) + (n2-n1-d)(q1-q0)/(n1-n0)).
pub fn exact_parabolic_signs(q: [f64; 3], n: [i64; 3], d: i64) -> (i32, i32) {
    use crate::exact::{decompose, Big};
    let dec: Vec<(i64, i64)> = q.iter().map(|&x| decompose(x)).collect();
    let e = dec.iter().filter(|d| d.0 != 0).map(|d| d.1).min().unwrap_or(0);
    let big: Vec<Big> = dec.iter().map(|&(m, ex)| if m == 0 { Big::zero() } else { Big::from_i64(m).shl((ex - e) as u32) }).collect();
    let (q0, q1, q2) = (&big[0], &big[1], &big[2]);
    let nn = Big::from_i64(n[2] - n[0]);
    let a = Big::from_i64(n[1] - n[0] + d);
    let b = Big::from_i64(n[2] - n[1]);
    let c = Big::from_i64(n[2] - n[1] - d);
    let dd = Big::from_i64(n[1] - n[0]);
    // par - q1 = d * (a*(q2-q1)*dd + c*(q1-q0)*b) / (nn*b*dd); all of nn, b, dd are positive
    let t = a.mul(&q2.sub(q1)).mul(&dd).add(&c.mul(&q1.sub(q0)).mul(&b)).mul(&Big::from_i64(d));
    let u = nn.mul(&b).mul(&dd);
    let sign = |x: &Big| -> i32 {
        if x.is_zero() {
            0
        } else if x.neg {
            -1
        } else {
            1
        }
    };
    let s0 = sign(&q1.sub(q0).mul(&u).add(&t));
    let s2 = sign(&q1.sub(q2).mul(&u).add(&t));
    (s0, s2)
}

fn short_dyadic(v: f64) -> bool {
    let w = v * 1048576.0;
    w == w.trunc() && v.abs() < 1073741824.0
}

/// Is `post` an admissible P-square successor of `pre` under observation `x`?
pub fn check_step(pre: &QState, x: f64, post: &QState) -> Result<StepInfo, (String, String)> {
    let mut info = StepInfo::default();
    let mut q = pre.q;
    let mut n = pre.n;
    let mut m = pre.m;
    // cell search: extreme markers absorb new minima / maxima
    let k: usize;
    if x < q[0] {
        q[0] = x;
        k = 1;
        info.new_min = true;
    } else if x >= q[4] {
        if x > q[4] {
            q[4] = x;
            info.new_max = true;
        }
        k = 4;
    } else {
        let mut kk = 4;
        for i in 1..5 {
            if x < q[i] {
                kk = i;
                break;
            }
        }
        k = kk;
    }
    if pre.q.iter().any(|&h| h == x) {
        info.tie_with_marker = true;
    }
    for i in k..5 {
        n[i] += 1;
    }
    for i in 0..5 {
        m[i] += pre.dm[i];
    }
    for i in 1..4 {
        let d = m[i] - n[i] as f64;
        let tol_d = if short_dyadic(pre.m[i]) && short_dyadic(pre.dm[i]) { 0.0 } else { 8.0 * U * m[i].abs() };
        let can_up = n[i + 1] - n[i] > 1;
        let can_down = n[i - 1] - n[i] < -1;
        let up_sure = d >= 1.0 + tol_d && can_up;
        let up_maybe = d >= 1.0 - tol_d && can_up;
        let dn_sure = d <= -1.0 - tol_d && can_down;
        let dn_maybe = d <= -1.0 + tol_d && can_down;
        // relative to the neighbouring heights, with an absolute floor of a few units of the smallest
        // subnormal: down there every operation of the formulas rounds to a multiple of 2^-1074, and an
        // algebraically equivalent evaluation order may differ by a few such units
        let tol_q = (64.0 * U * q[i - 1].abs().max(q[i].abs()).max(q[i + 1].abs())).max(f64::from_bits(16));
        // admissible outcomes: (height, position, kind) kind 0 stay, 1 parabolic, 2 linear
        let mut options: Vec<(f64, i64, u8, i64)> = vec![];
        for (maybe, s) in [(up_maybe, 1i64), (dn_maybe, -1i64)] {
            if !maybe {
                continue;
            }
            let sf = s as f64;
            let par = q[i]
                + sf / (n[i + 1] - n[i - 1]) as f64
                    * (((n[i] - n[i - 1] + s) as f64) * (q[i + 1] - q[i]) / (n[i + 1] - n[i]) as f64
                        + ((n[i + 1] - n[i] - s) as f64) * (q[i] - q[i - 1]) / (n[i] - n[i - 1]) as f64);
            let j = if s < 0 { i - 1 } else { i + 1 };
            let lin = q[i] + sf * (q[j] - q[i]) / (n[j] - n[i]) as f64;
            let mut inside_sure = q[i - 1] + tol_q < par && par < q[i + 1] - tol_q;
            let mut inside_maybe = q[i - 1] - tol_q < par && par < q[i + 1] + tol_q;
            if inside_maybe && !inside_sure && n[i + 1] > n[i] && n[i] > n[i - 1] {
                // near a threshold: decide in exact rational arithmetic. An exact tie with a
                // neighbour's height is NOT strictly between: P-square prescribes the linear
                // formula, and no rounding is involved in that decision.
                let (s0, s2) = exact_parabolic_signs([q[i - 1], q[i], q[i + 1]], [n[i - 1], n[i], n[i + 1]], s);
                if s0 == 0 || s2 == 0 {
                    info.exact_tie += 1;
                    // ... unless floating-point evaluation of the textbook expression misses the
                    // tie by a rounding error ("up to the rounding of the same arithmetic"): only
                    // when it reproduces the tie exactly is the strict comparison mandatory
                    if par == q[i - 1] || par == q[i + 1] {
                        inside_maybe = false;
                        info.exact_tie_mandatory += 1;
                    }
                } else if !(s0 > 0 && s2 < 0) {
                    // exactly outside, numerically within rounding of the threshold: both admitted
                    inside_sure = false;
                }
            }
            if inside_maybe {
                options.push((par, n[i] + s, 1, s));
            }
            if !inside_sure {
                options.push((lin, n[i] + s, 2, s));
            }
        }
        if !(up_sure || dn_sure) {
            options.push((q[i], n[i], 0, 0));
        }
        if options.len() > 2 || (options.len() == 2 && options[0].2 != 0 && options[1].2 != 0 && options[0].3 == options[1].3) {
            info.ambiguous += 1;
        }
        let hit = options.iter().find(|(h, p, _, _)| *p == post.n[i] && (h - post.q[i]).abs() <= tol_q);
        match hit {
            Some(&(_, p, kind, s)) => {
                q[i] = post.q[i]; // continue from the implementation's own value
                n[i] = p;
                match kind {
                    1 => info.parabolic += 1,
                    2 => info.linear += 1,
                    _ => {}
                }
                if s > 0 {
                    info.moved_up += 1;
                }
                if s < 0 {
                    info.moved_down += 1;
                }
            }
            None => {
                let what = if options.iter().any(|o| o.1 == post.n[i]) { "marker_height" } else { "marker_position" };
                return Err((
                    what.to_string(),
                    format!(
                        "marker {} after observation {:e}: implementation has height {:e} at position {}, admissible P-square outcomes (height, position) are {:?}; pre-state {:?}",
                        i,
                        x,
                        post.q[i],
                        post.n[i],
                        options.iter().map(|o| (o.0, o.1)).collect::<Vec<_>>(),
                        pre
                    ),
                ));
            }
        }
    }
    if post.n != n {
        return Err(("marker_position".into(), format!("positions {:?} expected {:?} after observation {:e}; pre-state {:?}", post.n, n, x, pre)));
    }
    if post.q[0] != q[0] || post.q[4] != q[4] {
        return Err((
            "extreme_markers".into(),
            format!("extreme markers ({:e}, {:e}) expected ({:e}, {:e}) after observation {:e}", post.q[0], post.q[4], q[0], q[4], x),
        ));
    }
    for i in 0..5 {
        if !((post.m[i] - m[i]).abs() <= 4.0 * U * m[i].abs()) {
            return Err(("desired_positions".into(), format!("desired positions {:?} expected {:?}", post.m, m)));
        }
        if post.dm[i].to_bits() != pre.dm[i].to_bits() {
            return Err(("increments".into(), format!("increments changed: {:?} -> {:?}", pre.dm, post.dm)));
        }
    }
    if !(post.n[0] == 1 && post.n.windows(2).all(|w| w[0] < w[1])) {
        return Err(("marker_position".into(), format!("positions not strictly increasing from 1: {:?}", post.n)));
    }
    Ok(info)
}
