//! The checkpoint store seam. C18 speaks of "a lossless format", not of one JSON call, so a
//! checkpoint written by the simulated node goes to one of four storage media; which one
//! is a pure function of the state being saved (a hash of its canonical JSON text), so a
//! trace replays identically without carrying the choice.
//!
//!  0 JsonText   serde_json::to_string / from_str (the observation point named by C18)
//!  1 JsonValue  the text is parsed to a serde_json::Value tree and the estimator is built
//!               with from_value: a different Deserializer (owned map/seq visitors)
//!  2 JsonReader pretty-printed bytes read back through serde_json::from_reader from a
//!               device that returns 1..7 bytes per read call (short reads)
//!  3 Binary     a compact, NOT self-describing binary format written for this harness
//!               (structs are field sequences without names, integers are varints with
//!               zig-zag coding for signed ones, floats are their bit patterns): exercises the derive's visit_seq path and anything
//!               that relies on field names, skipped fields or deserialize_any
#![allow(dead_code)]

use serde::de::{self, DeserializeOwned, DeserializeSeed, EnumAccess, IntoDeserializer, MapAccess, SeqAccess, VariantAccess, Visitor};
use serde::ser::{self, Serialize};
use std::fmt;

pub const MEDIA: [&str; 4] = ["json_text", "json_value", "json_reader_short_reads", "binary_not_self_describing"];

pub fn pick(json: &str) -> u8 {
    let mut h = 0xcbf29ce484222325u64;
    for b in json.bytes() {
        h = (h ^ b as u64).wrapping_mul(0x100000001b3);
    }
    // JSON text keeps half of the checkpoints (it is the observation point C18 names)
    match (h >> 20) % 8 {
        0..=3 => 0,
        4 => 1,
        5 => 2,
        _ => 3,
    }
}

pub const KEYS: [&str; 4] = [
    "fault.checkpoint_medium.json_text",
    "fault.checkpoint_medium.json_value",
    "fault.checkpoint_medium.json_reader_short_reads",
    "fault.checkpoint_medium.binary_not_self_describing",
];

pub fn key_of_blob(blob: &str) -> &'static str {
    match blob.as_bytes().first() {
        Some(b'V') => KEYS[1],
        Some(b'P') => KEYS[2],
        Some(b'B') => KEYS[3],
        _ => KEYS[0],
    }
}

pub fn name_of_blob(blob: &str) -> &'static str {
    match blob.as_bytes().first() {
        Some(b'V') => MEDIA[1],
        Some(b'P') => MEDIA[2],
        Some(b'B') => MEDIA[3],
        _ => MEDIA[0],
    }
}

/// serialise `t` for medium `m`; the blob is a string so that traces and messages can carry it
pub fn encode<T: Serialize>(t: &T, m: u8) -> Result<String, String> {
    match m {
        1 => serde_json::to_string(t).map(|s| format!("V{}", s)).map_err(|e| e.to_string()),
        2 => serde_json::to_string_pretty(t).map(|s| format!("P{}", s)).map_err(|e| e.to_string()),
        3 => {
            let mut s = BinSer { out: vec![] };
            t.serialize(&mut s).map_err(|e| e.0)?;
            let mut hex = String::with_capacity(1 + 2 * s.out.len());
            hex.push('B');
            for b in s.out {
                hex.push_str(&format!("{:02x}", b));
            }
            Ok(hex)
        }
        _ => serde_json::to_string(t).map_err(|e| e.to_string()),
    }
}

struct ShortReads<'a> {
    data: &'a [u8],
    pos: usize,
    state: u64,
}

impl<'a> std::io::Read for ShortReads<'a> {
    fn read(&mut self, buf: &mut [u8]) -> std::io::Result<usize> {
        self.state = self.state.wrapping_mul(6364136223846793005).wrapping_add(1442695040888963407);
        let want = 1 + (self.state >> 33) as usize % 7;
        let n = want.min(buf.len()).min(self.data.len() - self.pos);
        buf[..n].copy_from_slice(&self.data[self.pos..self.pos + n]);
        self.pos += n;
        Ok(n)
    }
}

pub fn decode<T: DeserializeOwned>(blob: &str) -> Result<T, String> {
    match blob.as_bytes().first() {
        Some(b'V') => {
            let v: serde_json::Value = serde_json::from_str(&blob[1..]).map_err(|e| e.to_string())?;
            serde_json::from_value(v).map_err(|e| e.to_string())
        }
        Some(b'P') => {
            let rd = ShortReads { data: blob[1..].as_bytes(), pos: 0, state: blob.len() as u64 };
            serde_json::from_reader(rd).map_err(|e| e.to_string())
        }
        Some(b'B') => {
            let hex = &blob.as_bytes()[1..];
            if hex.len() % 2 != 0 {
                return Err("odd hex length".into());
            }
            let nib = |c: u8| -> Result<u8, String> {
                match c {
                    b'0'..=b'9' => Ok(c - b'0'),
                    b'a'..=b'f' => Ok(c - b'a' + 10),
                    _ => Err("bad hex".into()),
                }
            };
            let mut bytes = Vec::with_capacity(hex.len() / 2);
            for p in hex.chunks(2) {
                bytes.push(nib(p[0])? * 16 + nib(p[1])?);
            }
            let mut d = BinDe { inp: &bytes, pos: 0 };
            let t = T::deserialize(&mut d).map_err(|e| e.0)?;
            if d.pos != bytes.len() {
                return Err(format!("{} trailing bytes after the value", bytes.len() - d.pos));
            }
            Ok(t)
        }
        _ => serde_json::from_str(blob).map_err(|e| e.to_string()),
    }
}

// ---------------------------------------------------------------------------------------
// the binary medium
// ---------------------------------------------------------------------------------------

#[derive(Debug)]
pub struct BinErr(pub String);

impl fmt::Display for BinErr {
    fn fmt(&self, f: &mut fmt::Formatter) -> fmt::Result {
        f.write_str(&self.0)
    }
}
impl std::error::Error for BinErr {}
impl ser::Error for BinErr {
    fn custom<T: fmt::Display>(m: T) -> Self {
        BinErr(m.to_string())
    }
}
impl de::Error for BinErr {
    fn custom<T: fmt::Display>(m: T) -> Self {
        BinErr(m.to_string())
    }
}

pub struct BinSer {
    out: Vec<u8>,
}

impl BinSer {
    fn put(&mut self, b: &[u8]) {
        self.out.extend_from_slice(b);
    }
    fn len(&mut self, n: usize) {
        self.varint(n as u128);
    }
    fn varint(&mut self, mut v: u128) {
        loop {
            let b = (v & 0x7f) as u8;
            v >>= 7;
            if v == 0 {
                self.out.push(b);
                break;
            }
            self.out.push(b | 0x80);
        }
    }
}

// integers are written as in postcard / bincode-2: unsigned as LEB128 varints, signed
// zig-zag encoded first, so that a signed field read back as unsigned (or the reverse) is
// NOT the identity
macro_rules! ser_unsigned {
    ($($f:ident $t:ty),*) => {$(
        fn $f(self, v: $t) -> Result<(), BinErr> {
            self.varint(v as u128);
            Ok(())
        }
    )*};
}
macro_rules! ser_signed {
    ($($f:ident $t:ty),*) => {$(
        fn $f(self, v: $t) -> Result<(), BinErr> {
            let w = v as i128;
            self.varint(((w << 1) ^ (w >> 127)) as u128);
            Ok(())
        }
    )*};
}

impl<'a> ser::Serializer for &'a mut BinSer {
    type Ok = ();
    type Error = BinErr;
    type SerializeSeq = Self;
    type SerializeTuple = Self;
    type SerializeTupleStruct = Self;
    type SerializeTupleVariant = Self;
    type SerializeMap = Self;
    type SerializeStruct = Self;
    type SerializeStructVariant = Self;

    fn is_human_readable(&self) -> bool {
        false
    }
    fn serialize_bool(self, v: bool) -> Result<(), BinErr> {
        self.put(&[v as u8]);
        Ok(())
    }
    ser_signed!(serialize_i8 i8, serialize_i16 i16, serialize_i32 i32, serialize_i64 i64, serialize_i128 i128);
    ser_unsigned!(serialize_u8 u8, serialize_u16 u16, serialize_u32 u32, serialize_u64 u64, serialize_u128 u128);
    fn serialize_f32(self, v: f32) -> Result<(), BinErr> {
        self.put(&v.to_bits().to_le_bytes());
        Ok(())
    }
    fn serialize_f64(self, v: f64) -> Result<(), BinErr> {
        self.put(&v.to_bits().to_le_bytes());
        Ok(())
    }
    fn serialize_char(self, v: char) -> Result<(), BinErr> {
        self.put(&(v as u32).to_le_bytes());
        Ok(())
    }
    fn serialize_str(self, v: &str) -> Result<(), BinErr> {
        self.len(v.len());
        self.put(v.as_bytes());
        Ok(())
    }
    fn serialize_bytes(self, v: &[u8]) -> Result<(), BinErr> {
        self.len(v.len());
        self.put(v);
        Ok(())
    }
    fn serialize_none(self) -> Result<(), BinErr> {
        self.put(&[0]);
        Ok(())
    }
    fn serialize_some<T: ?Sized + Serialize>(self, v: &T) -> Result<(), BinErr> {
        self.put(&[1]);
        v.serialize(self)
    }
    fn serialize_unit(self) -> Result<(), BinErr> {
        Ok(())
    }
    fn serialize_unit_struct(self, _: &'static str) -> Result<(), BinErr> {
        Ok(())
    }
    fn serialize_unit_variant(self, _: &'static str, i: u32, _: &'static str) -> Result<(), BinErr> {
        self.put(&i.to_le_bytes());
        Ok(())
    }
    fn serialize_newtype_struct<T: ?Sized + Serialize>(self, _: &'static str, v: &T) -> Result<(), BinErr> {
        v.serialize(self)
    }
    fn serialize_newtype_variant<T: ?Sized + Serialize>(self, _: &'static str, i: u32, _: &'static str, v: &T) -> Result<(), BinErr> {
        self.put(&i.to_le_bytes());
        v.serialize(self)
    }
    fn serialize_seq(self, len: Option<usize>) -> Result<Self, BinErr> {
        match len {
            Some(n) => {
                self.len(n);
                Ok(self)
            }
            None => Err(BinErr("binary medium: sequence of unknown length".into())),
        }
    }
    fn serialize_tuple(self, _: usize) -> Result<Self, BinErr> {
        Ok(self)
    }
    fn serialize_tuple_struct(self, _: &'static str, _: usize) -> Result<Self, BinErr> {
        Ok(self)
    }
    fn serialize_tuple_variant(self, _: &'static str, i: u32, _: &'static str, _: usize) -> Result<Self, BinErr> {
        self.put(&i.to_le_bytes());
        Ok(self)
    }
    fn serialize_map(self, len: Option<usize>) -> Result<Self, BinErr> {
        match len {
            Some(n) => {
                self.len(n);
                Ok(self)
            }
            None => Err(BinErr("binary medium: map of unknown length".into())),
        }
    }
    fn serialize_struct(self, _: &'static str, _: usize) -> Result<Self, BinErr> {
        Ok(self)
    }
    fn serialize_struct_variant(self, _: &'static str, i: u32, _: &'static str, _: usize) -> Result<Self, BinErr> {
        self.put(&i.to_le_bytes());
        Ok(self)
    }
}

macro_rules! ser_compound {
    ($tr:ident, $f:ident) => {
        impl<'a> ser::$tr for &'a mut BinSer {
            type Ok = ();
            type Error = BinErr;
            fn $f<T: ?Sized + Serialize>(&mut self, v: &T) -> Result<(), BinErr> {
                v.serialize(&mut **self)
            }
            fn end(self) -> Result<(), BinErr> {
                Ok(())
            }
        }
    };
}
ser_compound!(SerializeSeq, serialize_element);
ser_compound!(SerializeTuple, serialize_element);
ser_compound!(SerializeTupleStruct, serialize_field);
ser_compound!(SerializeTupleVariant, serialize_field);

impl<'a> ser::SerializeMap for &'a mut BinSer {
    type Ok = ();
    type Error = BinErr;
    fn serialize_key<T: ?Sized + Serialize>(&mut self, k: &T) -> Result<(), BinErr> {
        k.serialize(&mut **self)
    }
    fn serialize_value<T: ?Sized + Serialize>(&mut self, v: &T) -> Result<(), BinErr> {
        v.serialize(&mut **self)
    }
    fn end(self) -> Result<(), BinErr> {
        Ok(())
    }
}
impl<'a> ser::SerializeStruct for &'a mut BinSer {
    type Ok = ();
    type Error = BinErr;
    fn serialize_field<T: ?Sized + Serialize>(&mut self, _: &'static str, v: &T) -> Result<(), BinErr> {
        v.serialize(&mut **self)
    }
    fn end(self) -> Result<(), BinErr> {
        Ok(())
    }
}
impl<'a> ser::SerializeStructVariant for &'a mut BinSer {
    type Ok = ();
    type Error = BinErr;
    fn serialize_field<T: ?Sized + Serialize>(&mut self, _: &'static str, v: &T) -> Result<(), BinErr> {
        v.serialize(&mut **self)
    }
    fn end(self) -> Result<(), BinErr> {
        Ok(())
    }
}

pub struct BinDe<'b> {
    inp: &'b [u8],
    pos: usize,
}

impl<'b> BinDe<'b> {
    fn take(&mut self, n: usize) -> Result<&'b [u8], BinErr> {
        if self.inp.len() - self.pos < n {
            return Err(BinErr(format!("binary medium: unexpected end of data at byte {} (wanted {} more)", self.pos, n)));
        }
        let s = &self.inp[self.pos..self.pos + n];
        self.pos += n;
        Ok(s)
    }
    fn varint(&mut self) -> Result<u128, BinErr> {
        let mut v: u128 = 0;
        let mut shift = 0u32;
        loop {
            let b = self.take(1)?[0];
            if shift >= 128 {
                return Err(BinErr("binary medium: varint too long".into()));
            }
            v |= ((b & 0x7f) as u128) << shift;
            if b & 0x80 == 0 {
                return Ok(v);
            }
            shift += 7;
        }
    }
    fn len(&mut self) -> Result<usize, BinErr> {
        let n = self.varint()? as u64;
        if n as usize > self.inp.len() - self.pos && n > 1 << 20 {
            return Err(BinErr(format!("binary medium: implausible length {}", n)));
        }
        Ok(n as usize)
    }
    fn u32(&mut self) -> Result<u32, BinErr> {
        Ok(u32::from_le_bytes(self.take(4)?.try_into().unwrap()))
    }
}

macro_rules! de_unsigned {
    ($($f:ident $v:ident $t:ty),*) => {$(
        fn $f<V: Visitor<'de>>(self, vis: V) -> Result<V::Value, BinErr> {
            let u = self.varint()?;
            let x = <$t>::try_from(u).map_err(|_| BinErr(format!("binary medium: {} does not fit {}", u, stringify!($t))))?;
            vis.$v(x)
        }
    )*};
}
macro_rules! de_signed {
    ($($f:ident $v:ident $t:ty),*) => {$(
        fn $f<V: Visitor<'de>>(self, vis: V) -> Result<V::Value, BinErr> {
            let u = self.varint()?;
            let w = ((u >> 1) as i128) ^ -((u & 1) as i128);
            let x = <$t>::try_from(w).map_err(|_| BinErr(format!("binary medium: {} does not fit {}", w, stringify!($t))))?;
            vis.$v(x)
        }
    )*};
}

struct Counted<'a, 'b> {
    de: &'a mut BinDe<'b>,
    left: usize,
}

impl<'de, 'a, 'b> SeqAccess<'de> for Counted<'a, 'b> {
    type Error = BinErr;
    fn next_element_seed<T: DeserializeSeed<'de>>(&mut self, seed: T) -> Result<Option<T::Value>, BinErr> {
        if self.left == 0 {
            return Ok(None);
        }
        self.left -= 1;
        seed.deserialize(&mut *self.de).map(Some)
    }
    fn size_hint(&self) -> Option<usize> {
        Some(self.left)
    }
}

impl<'de, 'a, 'b> MapAccess<'de> for Counted<'a, 'b> {
    type Error = BinErr;
    fn next_key_seed<K: DeserializeSeed<'de>>(&mut self, seed: K) -> Result<Option<K::Value>, BinErr> {
        if self.left == 0 {
            return Ok(None);
        }
        self.left -= 1;
        seed.deserialize(&mut *self.de).map(Some)
    }
    fn next_value_seed<V: DeserializeSeed<'de>>(&mut self, seed: V) -> Result<V::Value, BinErr> {
        seed.deserialize(&mut *self.de)
    }
    fn size_hint(&self) -> Option<usize> {
        Some(self.left)
    }
}

impl<'de, 'a, 'b> EnumAccess<'de> for &'a mut BinDe<'b> {
    type Error = BinErr;
    type Variant = Self;
    fn variant_seed<V: DeserializeSeed<'de>>(self, seed: V) -> Result<(V::Value, Self), BinErr> {
        let i = self.u32()?;
        let v = seed.deserialize(IntoDeserializer::<BinErr>::into_deserializer(i))?;
        Ok((v, self))
    }
}

impl<'de, 'a, 'b> VariantAccess<'de> for &'a mut BinDe<'b> {
    type Error = BinErr;
    fn unit_variant(self) -> Result<(), BinErr> {
        Ok(())
    }
    fn newtype_variant_seed<T: DeserializeSeed<'de>>(self, seed: T) -> Result<T::Value, BinErr> {
        seed.deserialize(self)
    }
    fn tuple_variant<V: Visitor<'de>>(self, len: usize, vis: V) -> Result<V::Value, BinErr> {
        vis.visit_seq(Counted { de: self, left: len })
    }
    fn struct_variant<V: Visitor<'de>>(self, fields: &'static [&'static str], vis: V) -> Result<V::Value, BinErr> {
        vis.visit_seq(Counted { de: self, left: fields.len() })
    }
}

impl<'de, 'a, 'b> de::Deserializer<'de> for &'a mut BinDe<'b> {
    type Error = BinErr;

    fn is_human_readable(&self) -> bool {
        false
    }
    fn deserialize_any<V: Visitor<'de>>(self, _: V) -> Result<V::Value, BinErr> {
        Err(BinErr("binary medium is not self-describing: deserialize_any is not supported".into()))
    }
    fn deserialize_bool<V: Visitor<'de>>(self, vis: V) -> Result<V::Value, BinErr> {
        match self.take(1)?[0] {
            0 => vis.visit_bool(false),
            1 => vis.visit_bool(true),
            b => Err(BinErr(format!("binary medium: invalid bool byte {}", b))),
        }
    }
    de_signed!(deserialize_i8 visit_i8 i8, deserialize_i16 visit_i16 i16, deserialize_i32 visit_i32 i32, deserialize_i64 visit_i64 i64,
               deserialize_i128 visit_i128 i128);
    de_unsigned!(deserialize_u8 visit_u8 u8, deserialize_u16 visit_u16 u16, deserialize_u32 visit_u32 u32, deserialize_u64 visit_u64 u64,
                 deserialize_u128 visit_u128 u128);
    fn deserialize_f32<V: Visitor<'de>>(self, vis: V) -> Result<V::Value, BinErr> {
        let b = self.take(4)?;
        vis.visit_f32(f32::from_bits(u32::from_le_bytes(b.try_into().unwrap())))
    }
    fn deserialize_f64<V: Visitor<'de>>(self, vis: V) -> Result<V::Value, BinErr> {
        let b = self.take(8)?;
        vis.visit_f64(f64::from_bits(u64::from_le_bytes(b.try_into().unwrap())))
    }
    fn deserialize_char<V: Visitor<'de>>(self, vis: V) -> Result<V::Value, BinErr> {
        let c = self.u32()?;
        vis.visit_char(char::from_u32(c).ok_or_else(|| BinErr("binary medium: invalid char".into()))?)
    }
    fn deserialize_str<V: Visitor<'de>>(self, vis: V) -> Result<V::Value, BinErr> {
        self.deserialize_string(vis)
    }
    fn deserialize_string<V: Visitor<'de>>(self, vis: V) -> Result<V::Value, BinErr> {
        let n = self.len()?;
        let b = self.take(n)?;
        vis.visit_string(String::from_utf8(b.to_vec()).map_err(|e| BinErr(e.to_string()))?)
    }
    fn deserialize_bytes<V: Visitor<'de>>(self, vis: V) -> Result<V::Value, BinErr> {
        self.deserialize_byte_buf(vis)
    }
    fn deserialize_byte_buf<V: Visitor<'de>>(self, vis: V) -> Result<V::Value, BinErr> {
        let n = self.len()?;
        vis.visit_byte_buf(self.take(n)?.to_vec())
    }
    fn deserialize_option<V: Visitor<'de>>(self, vis: V) -> Result<V::Value, BinErr> {
        match self.take(1)?[0] {
            0 => vis.visit_none(),
            1 => vis.visit_some(self),
            b => Err(BinErr(format!("binary medium: invalid option byte {}", b))),
        }
    }
    fn deserialize_unit<V: Visitor<'de>>(self, vis: V) -> Result<V::Value, BinErr> {
        vis.visit_unit()
    }
    fn deserialize_unit_struct<V: Visitor<'de>>(self, _: &'static str, vis: V) -> Result<V::Value, BinErr> {
        vis.visit_unit()
    }
    fn deserialize_newtype_struct<V: Visitor<'de>>(self, _: &'static str, vis: V) -> Result<V::Value, BinErr> {
        vis.visit_newtype_struct(self)
    }
    fn deserialize_seq<V: Visitor<'de>>(self, vis: V) -> Result<V::Value, BinErr> {
        let n = self.len()?;
        vis.visit_seq(Counted { de: self, left: n })
    }
    fn deserialize_tuple<V: Visitor<'de>>(self, len: usize, vis: V) -> Result<V::Value, BinErr> {
        vis.visit_seq(Counted { de: self, left: len })
    }
    fn deserialize_tuple_struct<V: Visitor<'de>>(self, _: &'static str, len: usize, vis: V) -> Result<V::Value, BinErr> {
        vis.visit_seq(Counted { de: self, left: len })
    }
    fn deserialize_map<V: Visitor<'de>>(self, vis: V) -> Result<V::Value, BinErr> {
        let n = self.len()?;
        vis.visit_map(Counted { de: self, left: n })
    }
    fn deserialize_struct<V: Visitor<'de>>(self, _: &'static str, fields: &'static [&'static str], vis: V) -> Result<V::Value, BinErr> {
        vis.visit_seq(Counted { de: self, left: fields.len() })
    }
    fn deserialize_enum<V: Visitor<'de>>(self, _: &'static str, _: &'static [&'static str], vis: V) -> Result<V::Value, BinErr> {
        vis.visit_enum(self)
    }
    fn deserialize_identifier<V: Visitor<'de>>(self, _: V) -> Result<V::Value, BinErr> {
        Err(BinErr("binary medium carries no field names: deserialize_identifier is not supported".into()))
    }
    fn deserialize_ignored_any<V: Visitor<'de>>(self, _: V) -> Result<V::Value, BinErr> {
        Err(BinErr("binary medium is not self-describing: deserialize_ignored_any is not supported".into()))
    }
}

/// round-trip self-test of the media on harness-owned data (run by --oracle-selftest)
pub fn selftest() -> Result<(), String> {
    #[derive(serde::Serialize, serde::Deserialize, PartialEq, Debug, Clone)]
    enum E {
        A,
        B(u8),
        C { x: i32, y: Vec<u64> },
    }
    #[derive(serde::Serialize, serde::Deserialize, PartialEq, Debug, Clone)]
    struct S {
        a: f64,
        b: u64,
        c: [f64; 3],
        d: Vec<E>,
        e: Option<i64>,
        f: (u8, String),
        g: bool,
        h: u32,
    }
    let s = S {
        a: -0.0,
        b: u64::MAX,
        c: [1.5e-310, f64::MAX, 0.1],
        d: vec![E::A, E::B(7), E::C { x: -3, y: vec![1, 2, 3] }],
        e: Some(i64::MIN + 1),
        f: (255, "ü".into()),
        g: true,
        h: 1u32 << 30,
    };
    for m in 0..4u8 {
        let blob = encode(&s, m)?;
        let back: S = decode(&blob).map_err(|e| format!("medium {}: {}", m, e))?;
        if back != s || back.a.to_bits() != s.a.to_bits() {
            return Err(format!("medium {} does not round-trip: {:?}", m, back));
        }
    }
    // non-finite values survive the binary medium bit for bit
    let blob = encode(&[f64::NAN, f64::INFINITY], 3)?;
    let back: [f64; 2] = decode(&blob)?;
    if !back[0].is_nan() || back[1] != f64::INFINITY {
        return Err("binary medium loses non-finite values".into());
    }
    Ok(())
}
