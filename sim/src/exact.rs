//! Minimal exact integer arithmetic for the oracle (scratch version).
//! Sign-magnitude big integers with little-endian u64 limbs.
#![allow(dead_code)]

use std::cmp::Ordering;

#[derive(Clone, Debug, PartialEq, Eq)]
pub struct Big {
    pub neg: bool,
    pub mag: Vec<u64>, // no trailing zero limbs; empty = 0
}

fn trim(v: &mut Vec<u64>) {
    while let Some(&0) = v.last() {
        v.pop();
    }
}

fn cmp_mag(a: &[u64], b: &[u64]) -> Ordering {
    if a.len() != b.len() {
        return a.len().cmp(&b.len());
    }
    for i in (0..a.len()).rev() {
        if a[i] != b[i] {
            return a[i].cmp(&b[i]);
        }
    }
    Ordering::Equal
}

fn add_mag(a: &[u64], b: &[u64]) -> Vec<u64> {
    let (a, b) = if a.len() >= b.len() { (a, b) } else { (b, a) };
    let mut r = Vec::with_capacity(a.len() + 1);
    let mut carry = 0u128;
    for i in 0..a.len() {
        let s = a[i] as u128 + if i < b.len() { b[i] as u128 } else { 0 } + carry;
        r.push(s as u64);
        carry = s >> 64;
    }
    if carry > 0 {
        r.push(carry as u64);
    }
    r
}

// a >= b
fn sub_mag(a: &[u64], b: &[u64]) -> Vec<u64> {
    let mut r = Vec::with_capacity(a.len());
    let mut borrow = 0i128;
    for i in 0..a.len() {
        let mut d = a[i] as i128 - if i < b.len() { b[i] as i128 } else { 0 } - borrow;
        if d < 0 {
            d += 1i128 << 64;
            borrow = 1;
        } else {
            borrow = 0;
        }
        r.push(d as u64);
    }
    debug_assert_eq!(borrow, 0);
    trim(&mut r);
    r
}

fn mul_mag(a: &[u64], b: &[u64]) -> Vec<u64> {
    if a.is_empty() || b.is_empty() {
        return vec![];
    }
    let mut r = vec![0u64; a.len() + b.len()];
    for i in 0..a.len() {
        let mut carry = 0u128;
        for j in 0..b.len() {
            let t = a[i] as u128 * b[j] as u128 + r[i + j] as u128 + carry;
            r[i + j] = t as u64;
            carry = t >> 64;
        }
        let mut k = i + b.len();
        while carry > 0 {
            let t = r[k] as u128 + carry;
            r[k] = t as u64;
            carry = t >> 64;
            k += 1;
        }
    }
    trim(&mut r);
    r
}

impl Big {
    pub fn zero() -> Big {
        Big { neg: false, mag: vec![] }
    }
    pub fn from_u64(x: u64) -> Big {
        let mut mag = vec![x];
        trim(&mut mag);
        Big { neg: false, mag }
    }
    pub fn from_i64(x: i64) -> Big {
        let mut b = Big::from_u64(x.unsigned_abs());
        b.neg = x < 0 && !b.mag.is_empty();
        b
    }
    pub fn is_zero(&self) -> bool {
        self.mag.is_empty()
    }
    pub fn neg(&self) -> Big {
        Big { neg: !self.neg && !self.mag.is_empty(), mag: self.mag.clone() }
    }
    pub fn abs(&self) -> Big {
        Big { neg: false, mag: self.mag.clone() }
    }
    pub fn add(&self, o: &Big) -> Big {
        if self.neg == o.neg {
            return Big { neg: self.neg, mag: add_mag(&self.mag, &o.mag) };
        }
        match cmp_mag(&self.mag, &o.mag) {
            Ordering::Equal => Big::zero(),
            Ordering::Greater => Big { neg: self.neg, mag: sub_mag(&self.mag, &o.mag) },
            Ordering::Less => Big { neg: o.neg, mag: sub_mag(&o.mag, &self.mag) },
        }
    }
    pub fn sub(&self, o: &Big) -> Big {
        self.add(&o.neg())
    }
    pub fn mul(&self, o: &Big) -> Big {
        let mag = mul_mag(&self.mag, &o.mag);
        let neg = (self.neg != o.neg) && !mag.is_empty();
        Big { neg, mag }
    }
    pub fn mul_u64(&self, k: u64) -> Big {
        self.mul(&Big::from_u64(k))
    }
    pub fn pow(&self, p: u32) -> Big {
        let mut r = Big::from_u64(1);
        for _ in 0..p {
            r = r.mul(self);
        }
        r
    }
    pub fn shl(&self, s: u32) -> Big {
        if self.mag.is_empty() {
            return Big::zero();
        }
        let limbs = (s / 64) as usize;
        let bits = s % 64;
        let mut mag = vec![0u64; limbs];
        if bits == 0 {
            mag.extend_from_slice(&self.mag);
        } else {
            let mut carry = 0u64;
            for &l in &self.mag {
                mag.push((l << bits) | carry);
                carry = l >> (64 - bits);
            }
            if carry > 0 {
                mag.push(carry);
            }
        }
        Big { neg: self.neg, mag }
    }
    pub fn bits(&self) -> u64 {
        match self.mag.last() {
            None => 0,
            Some(&t) => (self.mag.len() as u64 - 1) * 64 + (64 - t.leading_zeros() as u64),
        }
    }
    pub fn cmp(&self, o: &Big) -> Ordering {
        match (self.neg, o.neg) {
            (false, true) => Ordering::Greater,
            (true, false) => Ordering::Less,
            (false, false) => cmp_mag(&self.mag, &o.mag),
            (true, true) => cmp_mag(&o.mag, &self.mag),
        }
    }
    /// (mantissa in [0.5,1) as f64 with rel. error <= 2^-52, exponent) such that
    /// |self| ~= m * 2^e.
    pub fn frexp(&self) -> (f64, i64) {
        if self.mag.is_empty() {
            return (0.0, 0);
        }
        let bits = self.bits();
        // take top 64 bits
        let top: u64;
        if bits <= 64 {
            top = self.mag[0] << (64 - bits);
        } else {
            let sh = bits - 64; // drop sh low bits
            let limb = (sh / 64) as usize;
            let b = (sh % 64) as u32;
            let lo = self.mag[limb] >> b;
            let hi = if b == 0 { 0 } else { self.mag.get(limb + 1).copied().unwrap_or(0) << (64 - b) };
            top = lo | hi;
        }
        let m = (top as f64) / 18446744073709551616.0; // 2^64; top>=2^63 so m in [0.5,1]
        let m = if self.neg { -m } else { m };
        (m, bits as i64)
    }
}

fn ldexp(mut m: f64, mut e: i64) -> f64 {
    // scale in safe steps
    while e > 1000 {
        m *= 2f64.powi(1000);
        e -= 1000;
        if !m.is_finite() {
            return m;
        }
    }
    while e < -1000 {
        m *= 2f64.powi(-1000);
        e += 1000;
        if m == 0.0 {
            return m;
        }
    }
    m * 2f64.powi(e as i32)
}

/// num/den * 2^exp2 as f64, relative error <= ~4*2^-53 (unless under/overflow).
pub fn ratio(num: &Big, den: &Big, exp2: i64) -> f64 {
    assert!(!den.is_zero());
    if num.is_zero() {
        return 0.0;
    }
    let (a, ea) = num.frexp();
    let (b, eb) = den.frexp();
    ldexp(a / b, ea - eb + exp2)
}

/// Decompose a finite f64 into (integer mantissa, exponent): x = m * 2^e.
pub fn decompose(x: f64) -> (i64, i64) {
    assert!(x.is_finite());
    if x == 0.0 {
        return (0, 0);
    }
    let bits = x.to_bits();
    let sign = if bits >> 63 == 1 { -1i64 } else { 1 };
    let exp = ((bits >> 52) & 0x7ff) as i64;
    let frac = (bits & ((1u64 << 52) - 1)) as i64;
    let (m, e) = if exp == 0 { (frac, -1074) } else { (frac | (1i64 << 52), exp - 1075) };
    let tz = m.trailing_zeros() as i64;
    (sign * (m >> tz), e + tz)
}

/// Exact scaled integers for a data set: x_i = X_i * 2^E.
pub struct Scaled {
    pub xs: Vec<Big>,
    pub e: i64,
}

pub fn scale(data: &[f64]) -> Scaled {
    let dec: Vec<(i64, i64)> = data.iter().map(|&x| decompose(x)).collect();
    let e = dec.iter().filter(|d| d.0 != 0).map(|d| d.1).min().unwrap_or(0);
    let xs = dec
        .iter()
        .map(|&(m, ex)| if m == 0 { Big::zero() } else { Big::from_i64(m).shl((ex - e) as u32) })
        .collect();
    Scaled { xs, e }
}

/// Exact moments of a sample.
pub struct Moments {
    pub n: u64,
    pub mean: f64,
    /// central moments m_p = (1/n) sum (x-mean)^p, p = 0..=pmax
    pub central: Vec<f64>,
    /// absolute central moments beta_p
    pub abs_central: Vec<f64>,
    pub max_abs: f64,
}

pub fn moments(data: &[f64], pmax: u32) -> Moments {
    let n = data.len() as u64;
    if n == 0 {
        let mut central = vec![1.0, 0.0];
        let mut abs_central = vec![1.0, 0.0];
        for _ in 2..=pmax {
            central.push(f64::NAN);
            abs_central.push(f64::NAN);
        }
        return Moments { n, mean: f64::NAN, central, abs_central, max_abs: 0.0 };
    }
    let sc = scale(data);
    let mut s1 = Big::zero();
    for x in &sc.xs {
        s1 = s1.add(x);
    }
    let nb = Big::from_u64(n);
    let mean = ratio(&s1, &nb, sc.e);
    let mut t: Vec<Big> = vec![Big::zero(); pmax as usize + 1];
    let mut ta: Vec<Big> = vec![Big::zero(); pmax as usize + 1];
    for x in &sc.xs {
        let d = x.mul_u64(n).sub(&s1);
        let da = d.abs();
        let mut pw = Big::from_u64(1);
        let mut pwa = Big::from_u64(1);
        for p in 0..=pmax as usize {
            if p >= 2 {
                t[p] = t[p].add(&pw);
                ta[p] = ta[p].add(&pwa);
            }
            pw = pw.mul(&d);
            pwa = pwa.mul(&da);
        }
    }
    let mut central = vec![1.0, 0.0];
    let mut abs_central = vec![1.0, 0.0];
    let mut den = nb.mul(&nb); // n^(p+1) for p=1
    for p in 2..=pmax as usize {
        den = den.mul(&nb);
        central.push(ratio(&t[p], &den, sc.e * p as i64));
        abs_central.push(ratio(&ta[p], &den, sc.e * p as i64));
    }
    let max_abs = data.iter().fold(0.0f64, |a, &b| a.max(b.abs()));
    Moments { n, mean, central, abs_central, max_abs }
}

/// Exact co-moment (1/n) sum (x-mx)(y-my).
pub fn comoment(xs: &[f64], ys: &[f64]) -> f64 {
    let n = xs.len() as u64;
    let sx = scale(xs);
    let sy = scale(ys);
    let mut s1x = Big::zero();
    let mut s1y = Big::zero();
    for x in &sx.xs {
        s1x = s1x.add(x);
    }
    for y in &sy.xs {
        s1y = s1y.add(y);
    }
    let mut t = Big::zero();
    for (x, y) in sx.xs.iter().zip(sy.xs.iter()) {
        let dx = x.mul_u64(n).sub(&s1x);
        let dy = y.mul_u64(n).sub(&s1y);
        t = t.add(&dx.mul(&dy));
    }
    let nb = Big::from_u64(n);
    let den = nb.mul(&nb).mul(&nb);
    ratio(&t, &den, sx.e + sy.e)
}

/// Exact weighted mean sum(w x)/sum(w), sum w, sum w^2.
pub fn weighted(xs: &[f64], ws: &[f64]) -> (f64, f64, f64) {
    if xs.is_empty() {
        return (f64::NAN, 0.0, 0.0);
    }
    let sx = scale(xs);
    let sw = scale(ws);
    let mut num = Big::zero();
    let mut den = Big::zero();
    let mut den2 = Big::zero();
    for (x, w) in sx.xs.iter().zip(sw.xs.iter()) {
        num = num.add(&x.mul(w));
        den = den.add(w);
        den2 = den2.add(&w.mul(w));
    }
    let one = Big::from_u64(1);
    let wm = if den.is_zero() { f64::NAN } else { ratio(&num, &den, sx.e) };
    (wm, ratio(&den, &one, sw.e), ratio(&den2, &one, 2 * sw.e))
}
