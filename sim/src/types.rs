//! Estimator adapters: one uniform interface (`Est`) over every estimator type of
//! vks/average that the simulators drive. Everything here calls REAL crate code;
//! nothing is re-implemented.
#![allow(dead_code)]

use average::{
    Covariance, Estimate, Kurtosis, Max, Mean, Merge, Min, Skewness, Variance, WeightedMean,
    WeightedMeanWithError,
};
use serde::{de::DeserializeOwned, Serialize};
use std::fmt::Debug;

// `define_moments!` is not hygienic for items: one module per instantiation.
pub mod m4 {
    average::define_moments!(M4, 4);
}
pub mod m5 {
    average::define_moments!(M5, 5);
}
pub mod m6 {
    average::define_moments!(M6, 6);
}
pub mod m8 {
    average::define_moments!(M8, 8);
}
pub mod m10 {
    average::define_moments!(M10, 10);
}
pub use average::Moments4;
pub use m10::M10;
pub use m4::M4;
pub use m5::M5;
pub use m6::M6;
pub use m8::M8;

#[derive(Clone, Copy, PartialEq, Eq, Hash, Debug, PartialOrd, Ord)]
pub enum Stat {
    Mean,
    PopVar,
    SampleVar,
    VarOfMean,
    Error,
    Skew,
    Kurt,
    Central(u8),
    Standardized(u8),
    SampleSkew,
    SampleExKurt,
    Min,
    Max,
    // pair estimators
    WMean,
    SumW,
    SumW2,
    EffLen,
    VarWMean,
    WError,
    MeanX,
    MeanY,
    PopVarX,
    SampleVarX,
    PopVarY,
    SampleVarY,
    PopCov,
    SampleCov,
    Pearson,
}

impl Stat {
    pub fn name(&self) -> String {
        match self {
            Stat::Central(p) => format!("central_moment({})", p),
            Stat::Standardized(p) => format!("standardized_moment({})", p),
            s => format!("{:?}", s),
        }
    }
}

/// How a leaf ingests a piece of its chunk (C20: all of these must be the same).
#[derive(Clone, Copy, PartialEq, Eq, Debug, Hash, serde::Serialize, serde::Deserialize)]
pub enum Path {
    AddLoop,
    ExtendVal,
    ExtendRef,
    /// only legal as the first piece of a leaf: the accumulator is replaced by `collect()`
    CollectVal,
    CollectRef,
    /// only legal as the first piece: Min/Max::from_value(first item) then add loop (C14);
    /// other types treat it as AddLoop
    FromValue,
    /// only meaningful as the first piece: the accumulator starts as `Default::default()`
    /// instead of `new()`, then add loop
    DefaultCtor,
    /// like the four above, but from an iterator adaptor whose size_hint() lower bound is 0
    /// (`filter(|_| true)`): nothing may depend on the hint
    ExtendValLazy,
    ExtendRefLazy,
    CollectValLazy,
    CollectRefLazy,
    /// fault (Min/Max only, where re-feeding is idempotent): `extend` from an iterator that
    /// panics half-way; the panic is caught and the whole piece is then fed again by `add`.
    /// Whatever was absorbed before the failed call must still be there.
    ExtendPanicsThenRetry,
    /// fault: the piece is fed by `extend` (by value) from the destructor of a guard while the
    /// thread is unwinding from an unrelated panic (a buffer flushing its pending samples)
    ExtendDuringUnwind,
}

/// guard of Path::ExtendDuringUnwind
pub struct FlushOnDrop<'a, E: Est>(pub &'a mut E, pub &'a [E::Item]);

impl<'a, E: Est> Drop for FlushOnDrop<'a, E> {
    fn drop(&mut self) {
        self.0.extend_val(self.1);
    }
}

pub trait Item: Copy + Debug + PartialEq + Send + Sync + 'static {
    fn to_bits2(self) -> (u64, u64);
    fn from_bits2(b: (u64, u64)) -> Self;
    fn show(self) -> String;
}
impl Item for f64 {
    fn to_bits2(self) -> (u64, u64) {
        (self.to_bits(), 0)
    }
    fn from_bits2(b: (u64, u64)) -> f64 {
        f64::from_bits(b.0)
    }
    fn show(self) -> String {
        format!("{:e}", self)
    }
}
impl Item for (f64, f64) {
    fn to_bits2(self) -> (u64, u64) {
        (self.0.to_bits(), self.1.to_bits())
    }
    fn from_bits2(b: (u64, u64)) -> (f64, f64) {
        (f64::from_bits(b.0), f64::from_bits(b.1))
    }
    fn show(self) -> String {
        format!("({:e},{:e})", self.0, self.1)
    }
}

pub trait Est: Clone + Debug + Serialize + DeserializeOwned + Send + 'static {
    type Item: Item;
    const NAME: &'static str;
    /// highest moment order this type reports (0 for types without moments)
    const ORDER: usize;
    /// does the type implement Extend (Max does not)
    const HAS_EXTEND: bool = true;
    fn fresh() -> Self;
    fn fresh_default() -> Self;
    fn push(&mut self, x: Self::Item);
    fn absorb(&mut self, o: &Self);
    fn count(&self) -> Option<u64>;
    fn empty_flag(&self) -> Option<bool>;
    /// every public f64-valued statistic accessor, in a fixed order
    fn stats(&self, out: &mut Vec<(Stat, f64)>);
    /// (Estimate::estimate(), the headline accessor) where the type implements Estimate
    fn headline(&self) -> Option<(f64, f64)>;
    fn collect_val(items: &[Self::Item]) -> Self;
    fn collect_ref(items: &[Self::Item]) -> Self;
    fn extend_val(&mut self, items: &[Self::Item]);
    fn extend_ref(&mut self, items: &[Self::Item]);
    fn extend_val_iter(&mut self, it: &mut dyn Iterator<Item = Self::Item>);
    fn collect_val_lazy(items: &[Self::Item]) -> Self;
    fn collect_ref_lazy(items: &[Self::Item]) -> Self;
    fn extend_val_lazy(&mut self, items: &[Self::Item]);
    fn extend_ref_lazy(&mut self, items: &[Self::Item]);
    fn from_value(_first: Self::Item) -> Option<Self> {
        None
    }

    fn stats_vec(&self) -> Vec<(Stat, f64)> {
        let mut v = Vec::with_capacity(32);
        self.stats(&mut v);
        v
    }
    fn ingest(&mut self, path: Path, items: &[Self::Item], first_piece: bool) {
        match path {
            Path::AddLoop => {
                for &x in items {
                    self.push(x);
                }
            }
            Path::ExtendVal => self.extend_val(items),
            Path::ExtendRef => self.extend_ref(items),
            Path::CollectVal if first_piece => *self = Self::collect_val(items),
            Path::CollectRef if first_piece => *self = Self::collect_ref(items),
            Path::CollectVal => self.extend_val(items),
            Path::CollectRef => self.extend_ref(items),
            Path::ExtendValLazy => self.extend_val_lazy(items),
            Path::ExtendRefLazy => self.extend_ref_lazy(items),
            Path::CollectValLazy if first_piece => *self = Self::collect_val_lazy(items),
            Path::CollectRefLazy if first_piece => *self = Self::collect_ref_lazy(items),
            Path::CollectValLazy => self.extend_val_lazy(items),
            Path::CollectRefLazy => self.extend_ref_lazy(items),
            Path::ExtendPanicsThenRetry => {
                if Self::ORDER == 0 && Self::HAS_EXTEND && items.len() >= 2 {
                    let k = items.len() / 2;
                    let mut it = items.iter().copied().enumerate().map(|(i, x)| {
                        if i == k {
                            panic!("harness: injected iterator panic");
                        }
                        x
                    });
                    let _ = std::panic::catch_unwind(std::panic::AssertUnwindSafe(|| self.extend_val_iter(&mut it)));
                }
                for &x in items {
                    self.push(x);
                }
            }
            Path::ExtendDuringUnwind => {
                if Self::HAS_EXTEND {
                    let _ = std::panic::catch_unwind(std::panic::AssertUnwindSafe(|| {
                        let _flush = FlushOnDrop(self, items);
                        panic!("harness: unrelated panic while samples are pending");
                    }));
                } else {
                    for &x in items {
                        self.push(x);
                    }
                }
            }
            Path::DefaultCtor => {
                if first_piece {
                    *self = Self::fresh_default();
                }
                for &x in items {
                    self.push(x);
                }
            }
            Path::FromValue => {
                let mut rest = items;
                if first_piece && !items.is_empty() {
                    if let Some(e) = Self::from_value(items[0]) {
                        *self = e;
                        rest = &items[1..];
                    }
                }
                for &x in rest {
                    self.push(x);
                }
            }
        }
    }
    fn to_json(&self) -> String {
        serde_json::to_string(self).expect("serialize")
    }
    /// `s`: JSON text or a blob written by `to_blob` (see medium.rs)
    fn from_json(s: &str) -> Result<Self, String> {
        crate::medium::decode(s)
    }
    /// the state as written to storage medium `m`; falls back to JSON text if the medium cannot carry it
    fn to_blob(&self, m: u8) -> String {
        crate::medium::encode(self, m).unwrap_or_else(|_| self.to_json())
    }
    fn debug(&self) -> String {
        format!("{:?}", self)
    }
}

/// An iterator that is NOT fused: it yields the items of `inner`, then `None` once, and if it
/// is polled again after that `None` it yields up to three phantom items before ending for
/// good (like a record stream cut at separators with `map_while`, or `Receiver::try_iter`).
/// A consumer that stops at the first `None`, as a `for` loop does, never sees the phantoms.
/// size_hint is the default (0, None).
pub struct Unfused<I: Iterator> {
    inner: I,
    done: bool,
    after: u8,
    phantom: I::Item,
}

pub static PHANTOM_F64: f64 = 1234.5;
pub static PHANTOM_PAIR: (f64, f64) = (1234.5, 1.0);

impl<I: Iterator> Unfused<I> {
    pub fn new(inner: I, phantom: I::Item) -> Self {
        Unfused { inner, done: false, after: 0, phantom }
    }
}

impl<I: Iterator> Iterator for Unfused<I>
where
    I::Item: Copy,
{
    type Item = I::Item;
    fn next(&mut self) -> Option<I::Item> {
        if !self.done {
            let x = self.inner.next();
            if x.is_none() {
                self.done = true;
            }
            x
        } else if self.after < 3 {
            self.after += 1;
            Some(self.phantom)
        } else {
            None
        }
    }
}

/// bit pattern equality, all NaNs identified (a NaN payload is not a statistic)
pub fn same_bits(a: f64, b: f64) -> bool {
    a.to_bits() == b.to_bits() || (a.is_nan() && b.is_nan())
}

pub fn stats_identical(a: &[(Stat, f64)], b: &[(Stat, f64)]) -> Option<(Stat, f64, f64)> {
    if a.len() != b.len() {
        return Some((Stat::Mean, a.len() as f64, b.len() as f64));
    }
    for (x, y) in a.iter().zip(b.iter()) {
        if x.0 != y.0 || !same_stat(x.0, x.1, y.1) {
            return Some((x.0, x.1, y.1));
        }
    }
    None
}

/// Bit-for-bit equality of one statistic. Exception: which of -0.0 / +0.0 `f64::min` and
/// `f64::max` return for a tie is left unspecified by Rust (and may differ between two
/// inlined call sites of the same source line), so for Min/Max the two zeros are the same
/// number.
pub fn same_stat(stat: Stat, a: f64, b: f64) -> bool {
    if matches!(stat, Stat::Min | Stat::Max) && a == 0.0 && b == 0.0 {
        return true;
    }
    same_bits(a, b)
}

macro_rules! scalar_ingest {
    ($t:ty) => {
        fn collect_val(items: &[f64]) -> Self {
            items.iter().copied().collect::<$t>()
        }
        fn collect_ref(items: &[f64]) -> Self {
            items.iter().collect::<$t>()
        }
        fn extend_val(&mut self, items: &[f64]) {
            Extend::extend(self, items.iter().copied())
        }
        fn extend_ref(&mut self, items: &[f64]) {
            Extend::extend(self, items.iter())
        }
        fn extend_val_iter(&mut self, it: &mut dyn Iterator<Item = f64>) {
            Extend::extend(self, it)
        }
        fn collect_val_lazy(items: &[f64]) -> Self {
            if items.len() % 2 == 0 {
                // size_hint = (0, None)
                let it = items.iter().copied();
                return Unfused::new(it, PHANTOM_F64).collect::<$t>();
            }
            items.iter().copied().filter(|_| true).collect::<$t>()
        }
        fn collect_ref_lazy(items: &[f64]) -> Self {
            items.iter().filter(|_| true).collect::<$t>()
        }
        fn extend_val_lazy(&mut self, items: &[f64]) {
            if items.len() % 2 == 0 {
                let it = items.iter().copied();
                return Extend::extend(self, Unfused::new(it, PHANTOM_F64));
            }
            Extend::extend(self, items.iter().copied().filter(|_| true))
        }
        fn extend_ref_lazy(&mut self, items: &[f64]) {
            if items.len() % 2 == 0 {
                let it = items.iter();
                return Extend::extend(self, Unfused::new(it, &PHANTOM_F64));
            }
            Extend::extend(self, items.iter().filter(|_| true))
        }
    };
}

impl Est for Mean {
    type Item = f64;
    const NAME: &'static str = "Mean";
    const ORDER: usize = 1;
    fn fresh() -> Self {
        Mean::new()
    }
    fn fresh_default() -> Self {
        Default::default()
    }
    fn push(&mut self, x: f64) {
        Estimate::add(self, x)
    }
    fn absorb(&mut self, o: &Self) {
        Merge::merge(self, o)
    }
    fn count(&self) -> Option<u64> {
        Some(self.len())
    }
    fn empty_flag(&self) -> Option<bool> {
        Some(self.is_empty())
    }
    fn stats(&self, out: &mut Vec<(Stat, f64)>) {
        out.push((Stat::Mean, self.mean()));
    }
    fn headline(&self) -> Option<(f64, f64)> {
        Some((Estimate::estimate(self), self.mean()))
    }
    scalar_ingest!(Mean);
}

impl Est for Variance {
    type Item = f64;
    const NAME: &'static str = "Variance";
    const ORDER: usize = 2;
    fn fresh() -> Self {
        Variance::new()
    }
    fn fresh_default() -> Self {
        Default::default()
    }
    fn push(&mut self, x: f64) {
        Estimate::add(self, x)
    }
    fn absorb(&mut self, o: &Self) {
        Merge::merge(self, o)
    }
    fn count(&self) -> Option<u64> {
        Some(self.len())
    }
    fn empty_flag(&self) -> Option<bool> {
        Some(self.is_empty())
    }
    fn stats(&self, out: &mut Vec<(Stat, f64)>) {
        out.push((Stat::Mean, self.mean()));
        out.push((Stat::PopVar, self.population_variance()));
        out.push((Stat::SampleVar, self.sample_variance()));
        out.push((Stat::VarOfMean, self.variance_of_mean()));
        out.push((Stat::Error, self.error()));
    }
    fn headline(&self) -> Option<(f64, f64)> {
        Some((Estimate::estimate(self), self.population_variance()))
    }
    scalar_ingest!(Variance);
}

impl Est for Skewness {
    type Item = f64;
    const NAME: &'static str = "Skewness";
    const ORDER: usize = 3;
    fn fresh() -> Self {
        Skewness::new()
    }
    fn fresh_default() -> Self {
        Default::default()
    }
    fn push(&mut self, x: f64) {
        Estimate::add(self, x)
    }
    fn absorb(&mut self, o: &Self) {
        Merge::merge(self, o)
    }
    fn count(&self) -> Option<u64> {
        Some(self.len())
    }
    fn empty_flag(&self) -> Option<bool> {
        Some(self.is_empty())
    }
    fn stats(&self, out: &mut Vec<(Stat, f64)>) {
        out.push((Stat::Mean, self.mean()));
        out.push((Stat::PopVar, self.population_variance()));
        out.push((Stat::SampleVar, self.sample_variance()));
        out.push((Stat::Error, self.error_mean()));
        out.push((Stat::Skew, self.skewness()));
    }
    fn headline(&self) -> Option<(f64, f64)> {
        Some((Estimate::estimate(self), self.skewness()))
    }
    scalar_ingest!(Skewness);
}

impl Est for Kurtosis {
    type Item = f64;
    const NAME: &'static str = "Kurtosis";
    const ORDER: usize = 4;
    fn fresh() -> Self {
        Kurtosis::new()
    }
    fn fresh_default() -> Self {
        Default::default()
    }
    fn push(&mut self, x: f64) {
        Estimate::add(self, x)
    }
    fn absorb(&mut self, o: &Self) {
        Merge::merge(self, o)
    }
    fn count(&self) -> Option<u64> {
        Some(self.len())
    }
    fn empty_flag(&self) -> Option<bool> {
        Some(self.is_empty())
    }
    fn stats(&self, out: &mut Vec<(Stat, f64)>) {
        out.push((Stat::Mean, self.mean()));
        out.push((Stat::PopVar, self.population_variance()));
        out.push((Stat::SampleVar, self.sample_variance()));
        out.push((Stat::Error, self.error_mean()));
        out.push((Stat::Skew, self.skewness()));
        out.push((Stat::Kurt, self.kurtosis()));
    }
    fn headline(&self) -> Option<(f64, f64)> {
        Some((Estimate::estimate(self), self.kurtosis()))
    }
    scalar_ingest!(Kurtosis);
}

macro_rules! moments_est {
    ($t:ty, $name:expr, $N:expr) => {
        impl Est for $t {
            type Item = f64;
            const NAME: &'static str = $name;
            const ORDER: usize = $N;
            fn fresh() -> Self {
                <$t>::new()
            }
            fn fresh_default() -> Self {
                Default::default()
            }
            fn push(&mut self, x: f64) {
                <$t>::add(self, x)
            }
            fn absorb(&mut self, o: &Self) {
                Merge::merge(self, o)
            }
            fn count(&self) -> Option<u64> {
                Some(self.len())
            }
            fn empty_flag(&self) -> Option<bool> {
                Some(self.is_empty())
            }
            fn stats(&self, out: &mut Vec<(Stat, f64)>) {
                out.push((Stat::Mean, self.mean()));
                for p in 0..=$N {
                    out.push((Stat::Central(p as u8), self.central_moment(p)));
                }
                // standardized_moment(p >= 3) documents an assertion on zero variance
                let v = self.central_moment(2);
                let pmax = if v != 0. { $N } else { 2 };
                for p in 0..=pmax {
                    out.push((Stat::Standardized(p as u8), self.standardized_moment(p)));
                }
                out.push((Stat::SampleVar, self.sample_variance()));
                out.push((Stat::SampleSkew, self.sample_skewness()));
                out.push((Stat::SampleExKurt, self.sample_excess_kurtosis()));
            }
            fn headline(&self) -> Option<(f64, f64)> {
                None
            }
            scalar_ingest!($t);
        }
    };
}
moments_est!(Moments4, "Moments4", 4);
moments_est!(M4, "M4", 4);
moments_est!(M5, "M5", 5);
moments_est!(M6, "M6", 6);
moments_est!(M8, "M8", 8);
moments_est!(M10, "M10", 10);

impl Est for Min {
    type Item = f64;
    const NAME: &'static str = "Min";
    const ORDER: usize = 0;
    fn fresh() -> Self {
        Min::new()
    }
    fn fresh_default() -> Self {
        Default::default()
    }
    fn push(&mut self, x: f64) {
        Estimate::add(self, x)
    }
    fn absorb(&mut self, o: &Self) {
        Merge::merge(self, o)
    }
    fn count(&self) -> Option<u64> {
        None
    }
    fn empty_flag(&self) -> Option<bool> {
        None
    }
    fn stats(&self, out: &mut Vec<(Stat, f64)>) {
        out.push((Stat::Min, self.min()));
    }
    fn headline(&self) -> Option<(f64, f64)> {
        Some((Estimate::estimate(self), self.min()))
    }
    fn from_value(first: f64) -> Option<Self> {
        if first.is_nan() {
            None
        } else {
            Some(Min::from_value(first))
        }
    }
    scalar_ingest!(Min);
}

impl Est for Max {
    type Item = f64;
    const NAME: &'static str = "Max";
    const ORDER: usize = 0;
    const HAS_EXTEND: bool = false;
    fn fresh() -> Self {
        Max::new()
    }
    fn fresh_default() -> Self {
        Default::default()
    }
    fn push(&mut self, x: f64) {
        Estimate::add(self, x)
    }
    fn absorb(&mut self, o: &Self) {
        Merge::merge(self, o)
    }
    fn count(&self) -> Option<u64> {
        None
    }
    fn empty_flag(&self) -> Option<bool> {
        None
    }
    fn stats(&self, out: &mut Vec<(Stat, f64)>) {
        out.push((Stat::Max, self.max()));
    }
    fn headline(&self) -> Option<(f64, f64)> {
        Some((Estimate::estimate(self), self.max()))
    }
    fn from_value(first: f64) -> Option<Self> {
        if first.is_nan() {
            None
        } else {
            Some(Max::from_value(first))
        }
    }
    fn collect_val(items: &[f64]) -> Self {
        items.iter().copied().collect::<Max>()
    }
    fn collect_ref(items: &[f64]) -> Self {
        items.iter().collect::<Max>()
    }
    // Max has no Extend impl (not a finding, see DESIGN C20): fall back to add.
    fn extend_val(&mut self, items: &[f64]) {
        for &x in items {
            Estimate::add(self, x);
        }
    }
    fn extend_ref(&mut self, items: &[f64]) {
        for &x in items {
            Estimate::add(self, x);
        }
    }
    fn extend_val_iter(&mut self, it: &mut dyn Iterator<Item = f64>) {
        for x in it {
            Estimate::add(self, x);
        }
    }
    fn collect_val_lazy(items: &[f64]) -> Self {
        items.iter().copied().filter(|_| true).collect::<Max>()
    }
    fn collect_ref_lazy(items: &[f64]) -> Self {
        items.iter().filter(|_| true).collect::<Max>()
    }
    fn extend_val_lazy(&mut self, items: &[f64]) {
        for &x in items {
            Estimate::add(self, x);
        }
    }
    fn extend_ref_lazy(&mut self, items: &[f64]) {
        for &x in items {
            Estimate::add(self, x);
        }
    }
}

macro_rules! pair_ingest {
    ($t:ty) => {
        fn collect_val(items: &[(f64, f64)]) -> Self {
            items.iter().copied().collect::<$t>()
        }
        fn collect_ref(items: &[(f64, f64)]) -> Self {
            items.iter().collect::<$t>()
        }
        fn extend_val(&mut self, items: &[(f64, f64)]) {
            Extend::extend(self, items.iter().copied())
        }
        fn extend_ref(&mut self, items: &[(f64, f64)]) {
            Extend::extend(self, items.iter())
        }
        fn extend_val_iter(&mut self, it: &mut dyn Iterator<Item = (f64, f64)>) {
            Extend::extend(self, it)
        }
        fn collect_val_lazy(items: &[(f64, f64)]) -> Self {
            if items.len() % 2 == 0 {
                let it = items.iter().copied();
                return Unfused::new(it, PHANTOM_PAIR).collect::<$t>();
            }
            items.iter().copied().filter(|_| true).collect::<$t>()
        }
        fn collect_ref_lazy(items: &[(f64, f64)]) -> Self {
            items.iter().filter(|_| true).collect::<$t>()
        }
        fn extend_val_lazy(&mut self, items: &[(f64, f64)]) {
            if items.len() % 2 == 0 {
                let it = items.iter().copied();
                return Extend::extend(self, Unfused::new(it, PHANTOM_PAIR));
            }
            Extend::extend(self, items.iter().copied().filter(|_| true))
        }
        fn extend_ref_lazy(&mut self, items: &[(f64, f64)]) {
            if items.len() % 2 == 0 {
                let it = items.iter();
                return Extend::extend(self, Unfused::new(it, &PHANTOM_PAIR));
            }
            Extend::extend(self, items.iter().filter(|_| true))
        }
    };
}

impl Est for WeightedMean {
    type Item = (f64, f64);
    const NAME: &'static str = "WeightedMean";
    const ORDER: usize = 1;
    fn fresh() -> Self {
        WeightedMean::new()
    }
    fn fresh_default() -> Self {
        Default::default()
    }
    fn push(&mut self, x: (f64, f64)) {
        self.add(x.0, x.1)
    }
    fn absorb(&mut self, o: &Self) {
        Merge::merge(self, o)
    }
    fn count(&self) -> Option<u64> {
        None
    }
    fn empty_flag(&self) -> Option<bool> {
        None // is_empty() of WeightedMean means "total weight is zero", not len()==0
    }
    fn stats(&self, out: &mut Vec<(Stat, f64)>) {
        out.push((Stat::WMean, self.mean()));
        out.push((Stat::SumW, self.sum_weights()));
    }
    fn headline(&self) -> Option<(f64, f64)> {
        None
    }
    pair_ingest!(WeightedMean);
}

impl Est for WeightedMeanWithError {
    type Item = (f64, f64);
    const NAME: &'static str = "WeightedMeanWithError";
    const ORDER: usize = 2;
    fn fresh() -> Self {
        WeightedMeanWithError::new()
    }
    fn fresh_default() -> Self {
        Default::default()
    }
    fn push(&mut self, x: (f64, f64)) {
        self.add(x.0, x.1)
    }
    fn absorb(&mut self, o: &Self) {
        Merge::merge(self, o)
    }
    fn count(&self) -> Option<u64> {
        Some(self.len())
    }
    fn empty_flag(&self) -> Option<bool> {
        Some(self.is_empty())
    }
    fn stats(&self, out: &mut Vec<(Stat, f64)>) {
        out.push((Stat::WMean, self.weighted_mean()));
        out.push((Stat::SumW, self.sum_weights()));
        out.push((Stat::SumW2, self.sum_weights_sq()));
        out.push((Stat::EffLen, self.effective_len()));
        out.push((Stat::Mean, self.unweighted_mean()));
        out.push((Stat::PopVar, self.population_variance()));
        out.push((Stat::SampleVar, self.sample_variance()));
        out.push((Stat::VarWMean, self.variance_of_weighted_mean()));
        out.push((Stat::WError, self.error()));
    }
    fn headline(&self) -> Option<(f64, f64)> {
        None
    }
    pair_ingest!(WeightedMeanWithError);
}

impl Est for Covariance {
    type Item = (f64, f64);
    const NAME: &'static str = "Covariance";
    const ORDER: usize = 2;
    fn fresh() -> Self {
        Covariance::new()
    }
    fn fresh_default() -> Self {
        Default::default()
    }
    fn push(&mut self, x: (f64, f64)) {
        self.add(x.0, x.1)
    }
    fn absorb(&mut self, o: &Self) {
        Merge::merge(self, o)
    }
    fn count(&self) -> Option<u64> {
        Some(self.len())
    }
    fn empty_flag(&self) -> Option<bool> {
        Some(self.is_empty())
    }
    fn stats(&self, out: &mut Vec<(Stat, f64)>) {
        out.push((Stat::MeanX, self.mean_x()));
        out.push((Stat::MeanY, self.mean_y()));
        out.push((Stat::PopVarX, self.population_variance_x()));
        out.push((Stat::SampleVarX, self.sample_variance_x()));
        out.push((Stat::PopVarY, self.population_variance_y()));
        out.push((Stat::SampleVarY, self.sample_variance_y()));
        out.push((Stat::PopCov, self.population_covariance()));
        out.push((Stat::SampleCov, self.sample_covariance()));
        out.push((Stat::Pearson, self.pearson()));
    }
    fn headline(&self) -> Option<(f64, f64)> {
        None
    }
    pair_ingest!(Covariance);
}

/// Run `$body` once per scalar estimator type with `$T` bound to the type.
#[macro_export]
macro_rules! for_scalar_types {
    ($T:ident => $body:block) => {{
        { type $T = average::Mean; $body }
        { type $T = average::Variance; $body }
        { type $T = average::Skewness; $body }
        { type $T = average::Kurtosis; $body }
        { type $T = average::Moments4; $body }
        { type $T = $crate::types::M4; $body }
        { type $T = $crate::types::M5; $body }
        { type $T = $crate::types::M6; $body }
        { type $T = $crate::types::M8; $body }
        { type $T = $crate::types::M10; $body }
        { type $T = average::Min; $body }
        { type $T = average::Max; $body }
    }};
}

/// Only the moment family (C02): no Min/Max.
#[macro_export]
macro_rules! for_moment_types {
    ($T:ident => $body:block) => {{
        { type $T = average::Mean; $body }
        { type $T = average::Variance; $body }
        { type $T = average::Skewness; $body }
        { type $T = average::Kurtosis; $body }
        { type $T = average::Moments4; $body }
        { type $T = $crate::types::M4; $body }
        { type $T = $crate::types::M5; $body }
        { type $T = $crate::types::M6; $body }
        { type $T = $crate::types::M8; $body }
        { type $T = $crate::types::M10; $body }
    }};
}

#[macro_export]
macro_rules! for_pair_types {
    ($T:ident => $body:block) => {{
        { type $T = average::WeightedMean; $body }
        { type $T = average::WeightedMeanWithError; $body }
        { type $T = average::Covariance; $body }
    }};
}
