//! Workload generation: data families over the input domains the properties name.
#![allow(dead_code)]

use crate::rng::Rng;

#[derive(Clone, Copy, Debug, PartialEq, Eq, Hash)]
pub enum Family {
    Uniform,
    Normal,
    ExpPos,
    ExpNeg,
    Bimodal,
    Outlier,
    TwoPoint,
    Arithmetic,
    LogNormal,
    MixedMag,
    Constant,
    SmallInts,
    /// k * 2^e with small k: exactly representable in f32, long decimal expansions
    Dyadic,
    /// values whose bit patterns have structure: exact powers of two, integers just above
    /// 2^53, the i64/u64 cast boundaries 2^63 and 2^64, neighbours differing in the last bit
    Structured,
}

pub const FAMILIES: [Family; 14] = [
    Family::Uniform,
    Family::Normal,
    Family::ExpPos,
    Family::ExpNeg,
    Family::Bimodal,
    Family::Outlier,
    Family::TwoPoint,
    Family::Arithmetic,
    Family::LogNormal,
    Family::MixedMag,
    Family::Constant,
    Family::SmallInts,
    Family::Dyadic,
    Family::Structured,
];

#[derive(Clone, Debug)]
pub struct DataMeta {
    pub family: Family,
    pub spread: f64,
    pub offset: f64,
    pub order: u8,
}

fn draw(rng: &mut Rng, fam: Family, i: usize, outlier_at: usize) -> f64 {
    match fam {
        Family::Uniform => rng.f() - 0.5,
        Family::Normal => rng.normal(),
        Family::ExpPos => -(rng.f().max(1e-300)).ln(),
        Family::ExpNeg => (rng.f().max(1e-300)).ln(),
        Family::Bimodal => (if rng.below(2) == 0 { -1.0 } else { 1.0 }) * (1.0 + 0.01 * rng.normal()),
        Family::Outlier => {
            if i == outlier_at {
                100.0
            } else {
                rng.normal() * 0.01
            }
        }
        Family::TwoPoint => {
            if rng.below(3) == 0 {
                1.0
            } else {
                0.0
            }
        }
        Family::Arithmetic => i as f64,
        Family::LogNormal => (rng.normal() * 3.0).exp(),
        Family::MixedMag => (rng.f() - 0.5) * 10f64.powf(rng.f() * 6.0 - 3.0),
        Family::Constant => 1.0,
        Family::SmallInts => rng.below(4) as f64 - 1.0,
        Family::Structured => {
            let sgn = if rng.chance(0.3) { -1.0 } else { 1.0 };
            sgn * match rng.below(6) {
                0 => 2f64.powi(rng.below(81) as i32 - 40),
                1 => 9007199254740992.0 + 2.0 * rng.below(1 << 20) as f64,
                2 => 9223372036854775808.0 * (1.0 + (rng.below(5) as f64 - 2.0) * f64::EPSILON),
                3 => 18446744073709551616.0 * (1.0 + (rng.below(5) as f64 - 2.0) * f64::EPSILON),
                4 => 4294967296.0 + rng.below(3) as f64 - 1.0,
                _ => (1u64 << rng.below(53)) as f64 + 1.0,
            }
        }
        Family::Dyadic => {
            let k = 1 + rng.below(1 << 12) as i64;
            let e = rng.below(70) as i32 - 25;
            (if rng.chance(0.5) { -k } else { k }) as f64 * 2f64.powi(e)
        }
    }
}

/// Scalar data in the C01 domain: |x| in {0} U [1e-30, 1e30], conditioning up to ~1e12.
pub fn scalar_c01(rng: &mut Rng, n: usize) -> (Vec<f64>, DataMeta) {
    let fam = FAMILIES[rng.usize(FAMILIES.len())];
    let spread_exp = rng.f() * 36.0 - 24.0; // 1e-24 .. 1e12
    let spread = if rng.chance(0.3) { 1.0 } else { 10f64.powf(spread_exp) };
    let k = rng.below(13) as i32;
    let sign = if rng.below(2) == 0 { 1.0 } else { -1.0 };
    let mut offset = if rng.below(3) == 0 { 0.0 } else { sign * spread * 10f64.powi(k) * (0.5 + rng.f()) };
    if offset.abs() > 1e29 {
        offset = 0.0;
    }
    let outlier_at = if n > 0 { rng.usize(n) } else { 0 };
    let mut v: Vec<f64> = (0..n).map(|i| offset + spread * draw(rng, fam, i, outlier_at)).collect();
    let order = rng.below(9) as u8;
    reorder(rng, &mut v, order);
    for x in v.iter_mut() {
        if x.abs() < 1e-30 {
            // keep the sign: -0.0 is a legal observation (|x| = 0)
            *x = 0.0f64.copysign(*x);
        }
        if x.abs() > 1e30 {
            *x = 1e30f64.copysign(*x);
        }
    }
    if rng.chance(0.05) {
        // both signs of zero
        for x in v.iter_mut() {
            if *x == 0.0 && rng.chance(0.5) {
                *x = -0.0;
            }
        }
        if !v.is_empty() && rng.chance(0.5) {
            v[0] = -0.0;
        }
    }
    (v, DataMeta { family: fam, spread, offset, order })
}

pub fn reorder(rng: &mut Rng, v: &mut Vec<f64>, order: u8) {
    match order {
        0 => v.sort_by(|a, b| a.partial_cmp(b).unwrap()),
        1 => v.sort_by(|a, b| b.partial_cmp(a).unwrap()),
        2 => {
            // zig-zag: smallest, largest, second smallest, ...
            let mut s = v.clone();
            s.sort_by(|a, b| a.partial_cmp(b).unwrap());
            let (mut i, mut j) = (0usize, s.len());
            let mut out = Vec::with_capacity(s.len());
            while i < j {
                out.push(s[i]);
                i += 1;
                if i < j {
                    j -= 1;
                    out.push(s[j]);
                }
            }
            *v = out;
        }
        3 => rng.shuffle(v),
        4 => {
            // palindrome: the first half mirrored
            let n = v.len();
            for i in 0..n / 2 {
                v[n - 1 - i] = v[i];
            }
        }
        5 => {
            // monotone, then constant
            v.sort_by(|a, b| a.partial_cmp(b).unwrap());
            let n = v.len();
            if n >= 2 {
                let k = n / 2;
                let c = v[k];
                for x in v[k..].iter_mut() {
                    *x = c;
                }
            }
        }
        6 => {
            // strictly alternating between the two halves of the sorted data
            v.sort_by(|a, b| a.partial_cmp(b).unwrap());
            let n = v.len();
            let (lo, hi) = (v[..n / 2].to_vec(), v[n / 2..].to_vec());
            let mut out = Vec::with_capacity(n);
            for i in 0..hi.len() {
                out.push(hi[i]);
                if i < lo.len() {
                    out.push(lo[i]);
                }
            }
            *v = out;
        }
        _ => {}
    }
}

/// Extended domain of C17: no kappa restriction, |x| <= 1e150, one-ulp spreads,
/// denormals, mixed magnitudes; n^2 M^2 stays below 1e305.
pub fn scalar_c17(rng: &mut Rng, n: usize) -> (Vec<f64>, DataMeta) {
    let mode = rng.below(7);
    let nn = (n.max(1) as f64) * (n.max(1) as f64);
    let cap = (1e305 / nn).sqrt().min(1e150);
    let mut v: Vec<f64> = Vec::with_capacity(n);
    let fam;
    match mode {
        0 => {
            // huge offset, tiny spread: offset 1e15 x spread
            fam = Family::Normal;
            let spread = 10f64.powf(rng.f() * 100.0 - 60.0);
            let off = (spread * 1e15 * (0.5 + rng.f())).min(cap * 0.5) * if rng.chance(0.5) { -1.0 } else { 1.0 };
            for _ in 0..n {
                v.push(off + spread * rng.normal());
            }
        }
        1 => {
            // spreads of one ulp around a base value
            fam = Family::TwoPoint;
            let base = 10f64.powf(rng.f() * 200.0 - 100.0) * if rng.chance(0.5) { -1.0 } else { 1.0 };
            let bits = base.to_bits();
            for _ in 0..n {
                let d = rng.below(3);
                v.push(f64::from_bits(bits + d));
            }
        }
        2 => {
            // denormals and tiny values
            fam = Family::MixedMag;
            for _ in 0..n {
                let b = rng.below(1 << 20) << rng.below(33);
                let x = f64::from_bits(b);
                v.push(if rng.chance(0.5) { -x } else { x });
            }
        }
        3 => {
            // mixed magnitudes across the whole range
            fam = Family::MixedMag;
            for _ in 0..n {
                let e = rng.f() * 300.0 - 150.0;
                let x = (10f64.powf(e) * (0.5 + rng.f())).min(cap);
                v.push(if rng.chance(0.5) { -x } else { x });
            }
        }
        4 => {
            // large values near the cap
            fam = Family::Uniform;
            for _ in 0..n {
                v.push(cap * (rng.f() * 2.0 - 1.0));
            }
        }
        5 => {
            // constant or nearly constant large
            fam = Family::Constant;
            let c = (10f64.powf(rng.f() * 280.0 - 140.0)).min(cap) * if rng.chance(0.5) { -1.0 } else { 1.0 };
            for _ in 0..n {
                v.push(if rng.chance(0.9) { c } else { c * (1.0 + 2.220446049250313e-16) });
            }
        }
        _ => {
            let (d, m) = scalar_c01(rng, n);
            return (d, m);
        }
    }
    for x in v.iter_mut() {
        if !x.is_finite() || x.abs() > cap {
            *x = cap.copysign(*x);
        }
    }
    let order = rng.below(9) as u8;
    reorder(rng, &mut v, order);
    (v, DataMeta { family: fam, spread: 0.0, offset: 0.0, order })
}

/// Values for Min/Max (C14): finite values, +-inf, +-0.0 and NaN, heavy ties.
pub fn scalar_c14(rng: &mut Rng, n: usize) -> Vec<f64> {
    let mode = rng.below(4);
    let alphabet = [
        0.0,
        -0.0,
        1.0,
        -1.0,
        2.5,
        f64::INFINITY,
        f64::NEG_INFINITY,
        f64::NAN,
        -f64::NAN,
        f64::MAX,
        f64::MIN,
        f64::MIN_POSITIVE,
        5e-324,
        -5e-324,
        1e300,
        -1e300,
    ];
    (0..n)
        .map(|_| match mode {
            0 => alphabet[rng.usize(alphabet.len())],
            1 => {
                if rng.chance(0.15) {
                    f64::NAN
                } else {
                    rng.normal() * 10f64.powf(rng.f() * 50.0 - 40.0)
                }
            }
            2 => {
                // mostly NaN
                if rng.chance(0.8) {
                    f64::NAN
                } else {
                    alphabet[rng.usize(alphabet.len())]
                }
            }
            _ => f64::from_bits(rng.next()),
        })
        .collect()
}

#[derive(Clone, Copy, Debug, PartialEq, Eq, Hash)]
pub enum WeightKind {
    Ones,
    Unit,
    Wide,
    UnitZeros,
    WideZeros,
    ZeroFirst,
    ZeroRuns,
    /// every weight exactly 0 or 1 (sum w == sum w^2 without all weights being one)
    ZeroOne,
    /// every weight the same non-dyadic constant (sum w and sum w^2 are rounded sums of equal terms)
    ConstNonDyadic,
}

/// (x, w) pairs for C08: x as C01, w in {0} U [1e-6, 1e6], sum w > 0 overall (checked by caller).
pub fn weighted_c08(rng: &mut Rng, n: usize) -> (Vec<(f64, f64)>, DataMeta, WeightKind) {
    let (xs, meta) = scalar_c01(rng, n);
    let kinds = [
        WeightKind::Ones,
        WeightKind::Unit,
        WeightKind::Wide,
        WeightKind::UnitZeros,
        WeightKind::WideZeros,
        WeightKind::ZeroFirst,
        WeightKind::ZeroRuns,
        WeightKind::ZeroOne,
        WeightKind::ConstNonDyadic,
    ];
    let kind = kinds[rng.usize(kinds.len())];
    let const_w = [0.1, 0.3, 0.7, 2.7, 1e-3, 123.456][rng.usize(6)];
    let zero_rate = rng.f() * 0.6;
    let mut in_run = false;
    let ws: Vec<f64> = (0..n)
        .map(|i| {
            let unit = (rng.f() * (1.0 - 1e-6) + 1e-6).max(1e-6);
            let wide = 10f64.powf(rng.f() * 12.0 - 6.0);
            match kind {
                WeightKind::Ones => 1.0,
                WeightKind::ConstNonDyadic => const_w,
                WeightKind::Unit => unit,
                WeightKind::Wide => wide,
                WeightKind::UnitZeros => {
                    if rng.chance(zero_rate) {
                        0.0
                    } else {
                        unit
                    }
                }
                WeightKind::WideZeros => {
                    if rng.chance(zero_rate) {
                        0.0
                    } else {
                        wide
                    }
                }
                WeightKind::ZeroFirst => {
                    if i == 0 || (i < 3 && rng.chance(0.5)) {
                        0.0
                    } else if rng.chance(0.5) {
                        1.0
                    } else {
                        wide
                    }
                }
                WeightKind::ZeroOne => {
                    if rng.chance(0.4) {
                        0.0
                    } else {
                        1.0
                    }
                }
                WeightKind::ZeroRuns => {
                    if rng.chance(0.2) {
                        in_run = !in_run;
                    }
                    if in_run {
                        0.0
                    } else {
                        unit
                    }
                }
            }
        })
        .collect();
    // a zero weight may carry either sign
    let ws: Vec<f64> = ws.into_iter().map(|w| if w == 0.0 && rng.chance(0.2) { -0.0 } else { w }).collect();
    (xs.into_iter().zip(ws).collect(), meta, kind)
}

/// weights for C17: non-negative, positive values over 200 orders of magnitude (w^2 and
/// (sum w)^2 stay clear of overflow/underflow), zeros anywhere
pub fn weights_c17(rng: &mut Rng, n: usize) -> Vec<f64> {
    let mode = rng.below(5);
    let base = 10f64.powf(rng.f() * 200.0 - 100.0);
    let zero_rate = if rng.chance(0.5) { 0.0 } else { rng.f() * 0.5 };
    (0..n)
        .map(|_| {
            if rng.chance(zero_rate) {
                return 0.0;
            }
            match mode {
                0 => base,
                1 => base * (0.5 + rng.f()),
                2 => 10f64.powf(rng.f() * 200.0 - 100.0),
                3 => base * 10f64.powf(rng.f() * 20.0 - 10.0).min(1e100 / base),
                _ => 10f64.powf(rng.f() * 12.0 - 6.0),
            }
        })
        .collect()
}

/// (x, y) pairs for C09: correlations from -1 to 1 incl. exactly collinear, independent offsets.
pub fn pairs_c09(rng: &mut Rng, n: usize) -> (Vec<(f64, f64)>, DataMeta, u8) {
    let (xs, meta) = scalar_c01(rng, n);
    let mode = rng.below(7) as u8;
    let ys: Vec<f64> = match mode {
        6 => {
            // exactly-in-real-arithmetic collinear with a random (often negative) slope and an
            // intercept: after rounding |pearson| may overshoot 1 by an ulp
            let b = if rng.chance(0.7) { -(0.5 + 3.0 * rng.f()) } else { 0.5 + 3.0 * rng.f() };
            let a = rng.normal() * 3.0;
            xs.iter().map(|&x| clamp30(a + b * x)).collect()
        }
        0 => xs.clone(),                                  // rho = 1 exactly
        1 => xs.iter().map(|&x| -x).collect(),            // rho = -1 exactly
        2 => xs.iter().map(|&x| 2.0 * x).collect(),       // collinear, exact in binary
        3 => scalar_c01(rng, n).0,                        // independent
        4 => {
            // correlated with noise, own scale and offset
            let (zs, _) = scalar_c01(rng, n);
            let a = rng.normal();
            let sx = meta.spread.max(1e-300);
            xs.iter().zip(zs.iter()).map(|(&x, &z)| clamp30(a * (x - meta.offset) / sx + z)).collect()
        }
        _ => {
            // y constant or two-valued
            let c = rng.normal();
            xs.iter().map(|_| if rng.chance(0.3) { c + 1.0 } else { c }).collect()
        }
    };
    (xs.into_iter().zip(ys).collect(), meta, mode)
}

fn clamp30(x: f64) -> f64 {
    if !x.is_finite() {
        return 0.0;
    }
    if x.abs() < 1e-30 {
        0.0
    } else if x.abs() > 1e30 {
        1e30f64.copysign(x)
    } else {
        x
    }
}

/// run length n: mostly tiny, often medium, sometimes large
pub fn pick_n(rng: &mut Rng, big: usize) -> usize {
    // rarely: a sequence long enough for one operand of a merge to be thousands of times
    // larger than the other (size-ratio fast paths)
    if rng.below(60) == 0 {
        return rng.range(4100, 9000);
    }
    // and very rarely one that crosses 2^15 and 2^16 (count thresholds, narrow integer casts)
    if rng.below(3000) == 0 {
        return rng.range(20_000, 100_000);
    }
    match rng.below(20) {
        0 => 0,
        1 => 1,
        2 => 2,
        3..=9 => rng.range(3, 12),
        10..=15 => rng.range(6, 64),
        16..=18 => rng.range(64, 512.min(big)),
        _ => rng.range(512.min(big), big),
    }
}
