//! Histogram adapters: one object-safe interface over the `define_histogram!`
//! instantiations (LEN = 1,2,3,4,10,100) so the H simulator can hold mixed nodes.
#![allow(dead_code)]

use average::{Histogram as HistTrait, InvalidRangeError, Merge};

average::define_histogram!(h1, 1);
average::define_histogram!(h2, 2);
average::define_histogram!(h3, 3);
average::define_histogram!(h4, 4);
/// LEN = 10 is the crate's own exported instantiation `average::Histogram10`
mod h10 {
    pub use average::Histogram10 as Histogram;
}
average::define_histogram!(h100, 100);
average::define_histogram!(h7, 7);
average::define_histogram!(h8, 8);
average::define_histogram!(h64, 64);
average::define_histogram!(h256, 256);

pub const LENS: [usize; 10] = [1, 2, 3, 4, 7, 8, 10, 64, 100, 256];

pub trait Hist: Send {
    fn len(&self) -> usize;
    fn find(&self, x: f64) -> Result<usize, ()>;
    fn add(&mut self, x: f64) -> Result<(), ()>;
    fn bins(&self) -> Vec<u64>;
    fn ranges(&self) -> Vec<f64>;
    fn range_min(&self) -> f64;
    fn range_max(&self) -> f64;
    fn reset(&mut self);
    fn merge_from(&mut self, other: &dyn Hist);
    fn add_assign_from(&mut self, other: &dyn Hist);
    fn mul_assign(&mut self, k: u64);
    fn boxed_clone(&self) -> Box<dyn Hist>;
    /// `Clone::clone_from`
    fn clone_from_other(&mut self, other: &dyn Hist);
    fn iter_items(&self) -> Vec<((f64, f64), u64)>;
    fn into_iter_items(&self) -> Vec<((f64, f64), u64)>;
    /// iteration through the standard adaptors: nth(k), skip(k), step_by(k), last, count
    fn iter_nth(&self, k: usize) -> Option<((f64, f64), u64)>;
    fn iter_skip(&self, k: usize) -> Vec<((f64, f64), u64)>;
    fn iter_step_by(&self, k: usize) -> Vec<((f64, f64), u64)>;
    fn iter_count_last(&self) -> (usize, Option<((f64, f64), u64)>);
    /// iterator-protocol probe of iter(), widths(), centers(), normalized_bins(), variances()
    fn iter_protocol(&self, j: usize, k: usize) -> Result<(), String>;
    /// variances()[i] read through nth / skip / step_by / last instead of plain iteration
    fn variances_via(&self, i: usize) -> Vec<(&'static str, Option<f64>)>;
    fn widths(&self) -> Vec<f64>;
    fn centers(&self) -> Vec<f64>;
    fn normalized_bins(&self) -> Vec<f64>;
    fn variance(&self, i: usize) -> f64;
    fn variances(&self) -> Vec<f64>;
    fn debug(&self) -> String;
    fn to_json(&self) -> String;
    fn to_blob(&self, m: u8) -> String;
    fn from_json_same(&self, s: &str) -> Result<Box<dyn Hist>, String>;
    fn as_any(&self) -> &dyn std::any::Any;
}

pub fn f64_eq(a: &f64, b: &f64) -> bool {
    a.to_bits() == b.to_bits() || (a.is_nan() && b.is_nan())
}

pub fn item_eq(a: &((f64, f64), u64), b: &((f64, f64), u64)) -> bool {
    f64_eq(&(a.0).0, &(b.0).0) && f64_eq(&(a.0).1, &(b.0).1) && a.1 == b.1
}

/// Every way of draining one of the crate's iterators must agree with plain `next()` calls:
/// count / last / nth / skip / step_by / fold / size_hint on a fresh iterator, on one that has
/// already yielded `j` items, and on an exhausted one.
pub fn protocol_probe<T: Copy + std::fmt::Debug, I: Iterator<Item = T>>(what: &str, mk: impl Fn() -> I, j: usize, k: usize, eq: fn(&T, &T) -> bool) -> Result<(), String> {
    let mut all: Vec<T> = vec![];
    let mut it = mk();
    while let Some(x) = it.next() {
        all.push(x);
        if all.len() > 100_000 {
            return Err(format!("{}: does not terminate", what));
        }
    }
    if it.next().is_some() || it.count() != 0 {
        return Err(format!("{}: an exhausted iterator yields more items", what));
    }
    let n = all.len();
    let j = if n == 0 { 0 } else { j % (n + 1) };
    let k = k.max(1);
    let same = |a: &[T], b: &[T]| a.len() == b.len() && a.iter().zip(b.iter()).all(|(x, y)| eq(x, y));
    let opt_same = |a: Option<T>, b: Option<T>| match (a, b) {
        (Some(x), Some(y)) => eq(&x, &y),
        (None, None) => true,
        _ => false,
    };
    // an iterator that has already yielded j items
    let advanced = || {
        let mut it = mk();
        for _ in 0..j {
            it.next();
        }
        it
    };
    let (lo, hi) = advanced().size_hint();
    if lo > n - j || hi.map_or(false, |h| h < n - j) {
        return Err(format!("{}: size_hint() = ({}, {:?}) after {} of {} items", what, lo, hi, j, n));
    }
    let c = advanced().count();
    if c != n - j {
        return Err(format!("{}: count() = {} after {} of {} items were taken", what, c, j, n));
    }
    if !opt_same(advanced().last(), if j < n { all.last().copied() } else { None }) {
        return Err(format!("{}: last() after {} of {} items", what, j, n));
    }
    let mut it = advanced();
    let got = it.nth(k - 1);
    if !opt_same(got, all.get(j + k - 1).copied()) {
        return Err(format!("{}: nth({}) after {} items = {:?} expected {:?}", what, k - 1, j, got, all.get(j + k - 1)));
    }
    let rest: Vec<T> = it.collect();
    if !same(&rest, &all[(j + k).min(n)..]) {
        return Err(format!("{}: items after nth({}) differ from plain iteration", what, k - 1));
    }
    let sk: Vec<T> = mk().skip(j).collect();
    if !same(&sk, &all[j..]) {
        return Err(format!("{}: skip({}) differs from plain iteration", what, j));
    }
    let stepped: Vec<T> = mk().step_by(k).collect();
    let want: Vec<T> = all.iter().copied().step_by(k).collect();
    if !same(&stepped, &want) {
        return Err(format!("{}: step_by({}) = {:?} expected {:?}", what, k, stepped, want));
    }
    let folded = advanced().fold(0usize, |a, _| a + 1);
    if folded != n - j {
        return Err(format!("{}: fold visits {} items after {} of {} were taken", what, folded, j, n));
    }
    let mut pk = mk().peekable();
    let _ = pk.peek();
    if pk.count() != n {
        return Err(format!("{}: peekable().count() != {}", what, n));
    }
    Ok(())
}

macro_rules! hist_impl {
    ($m:ident) => {
        impl Hist for $m::Histogram {
            fn len(&self) -> usize {
                HistTrait::bins(self).len()
            }
            fn find(&self, x: f64) -> Result<usize, ()> {
                $m::Histogram::find(self, x).map_err(|_| ())
            }
            fn add(&mut self, x: f64) -> Result<(), ()> {
                $m::Histogram::add(self, x).map_err(|_| ())
            }
            fn bins(&self) -> Vec<u64> {
                HistTrait::bins(self).to_vec()
            }
            fn ranges(&self) -> Vec<f64> {
                $m::Histogram::ranges(self).to_vec()
            }
            fn range_min(&self) -> f64 {
                $m::Histogram::range_min(self)
            }
            fn range_max(&self) -> f64 {
                $m::Histogram::range_max(self)
            }
            fn reset(&mut self) {
                $m::Histogram::reset(self)
            }
            fn merge_from(&mut self, other: &dyn Hist) {
                let o = other.as_any().downcast_ref::<$m::Histogram>().expect("harness: same LEN");
                Merge::merge(self, o)
            }
            fn add_assign_from(&mut self, other: &dyn Hist) {
                let o = other.as_any().downcast_ref::<$m::Histogram>().expect("harness: same LEN");
                *self += o;
            }
            fn mul_assign(&mut self, k: u64) {
                *self *= k;
            }
            fn boxed_clone(&self) -> Box<dyn Hist> {
                Box::new(self.clone())
            }
            fn clone_from_other(&mut self, other: &dyn Hist) {
                let o = other.as_any().downcast_ref::<$m::Histogram>().expect("harness: same LEN");
                Clone::clone_from(self, o)
            }
            fn iter_items(&self) -> Vec<((f64, f64), u64)> {
                self.iter().collect()
            }
            fn into_iter_items(&self) -> Vec<((f64, f64), u64)> {
                let mut v = vec![];
                for it in self {
                    v.push(it);
                }
                v
            }
            fn iter_nth(&self, k: usize) -> Option<((f64, f64), u64)> {
                self.iter().nth(k)
            }
            fn iter_skip(&self, k: usize) -> Vec<((f64, f64), u64)> {
                self.iter().skip(k).collect()
            }
            fn iter_step_by(&self, k: usize) -> Vec<((f64, f64), u64)> {
                self.iter().step_by(k.max(1)).collect()
            }
            fn iter_count_last(&self) -> (usize, Option<((f64, f64), u64)>) {
                (self.iter().count(), self.iter().last())
            }
            fn iter_protocol(&self, j: usize, k: usize) -> Result<(), String> {
                protocol_probe("iter()", || self.iter(), j, k, item_eq)?;
                protocol_probe("widths()", || HistTrait::widths(self), j, k, f64_eq)?;
                protocol_probe("centers()", || HistTrait::centers(self), j, k, f64_eq)?;
                protocol_probe("normalized_bins()", || HistTrait::normalized_bins(self), j, k, f64_eq)?;
                protocol_probe("variances()", || HistTrait::variances(self), j, k, f64_eq)
            }
            fn variances_via(&self, i: usize) -> Vec<(&'static str, Option<f64>)> {
                vec![
                    ("variances().nth(i)", HistTrait::variances(self).nth(i)),
                    ("variances().skip(i).next()", HistTrait::variances(self).skip(i).next()),
                    ("variances().step_by(i+1).nth(1)", HistTrait::variances(self).step_by(i + 1).nth(1)),
                    ("variances().take(i+1).last()", HistTrait::variances(self).take(i + 1).last()),
                ]
            }
            fn widths(&self) -> Vec<f64> {
                HistTrait::widths(self).collect()
            }
            fn centers(&self) -> Vec<f64> {
                HistTrait::centers(self).collect()
            }
            fn normalized_bins(&self) -> Vec<f64> {
                HistTrait::normalized_bins(self).collect()
            }
            fn variance(&self, i: usize) -> f64 {
                HistTrait::variance(self, i)
            }
            fn variances(&self) -> Vec<f64> {
                HistTrait::variances(self).collect()
            }
            fn debug(&self) -> String {
                format!("{:?}", self)
            }
            fn to_json(&self) -> String {
                serde_json::to_string(self).expect("serialize")
            }
            fn to_blob(&self, m: u8) -> String {
                crate::medium::encode(self, m).unwrap_or_else(|_| Hist::to_json(self))
            }
            fn from_json_same(&self, s: &str) -> Result<Box<dyn Hist>, String> {
                crate::medium::decode::<$m::Histogram>(s).map(|h| Box::new(h) as Box<dyn Hist>)
            }
            fn as_any(&self) -> &dyn std::any::Any {
                self
            }
        }
    };
}
hist_impl!(h1);
hist_impl!(h2);
hist_impl!(h3);
hist_impl!(h4);
hist_impl!(h10);
hist_impl!(h100);
hist_impl!(h7);
hist_impl!(h8);
hist_impl!(h64);
hist_impl!(h256);

#[cfg(feature = "nightly")]
pub fn from_ranges(len: usize, edges: &[f64]) -> Result<Box<dyn Hist>, InvalidRangeError> {
    cg::from_ranges(len, edges)
}

#[cfg(feature = "nightly")]
pub fn with_const_width(len: usize, a: f64, b: f64) -> Box<dyn Hist> {
    cg::with_const_width(len, a, b)
}

#[cfg(not(feature = "nightly"))]
pub fn from_ranges(len: usize, edges: &[f64]) -> Result<Box<dyn Hist>, InvalidRangeError> {
    let it = edges.iter().copied();
    Ok(match len {
        1 => Box::new(h1::Histogram::from_ranges(it)?),
        2 => Box::new(h2::Histogram::from_ranges(it)?),
        3 => Box::new(h3::Histogram::from_ranges(it)?),
        4 => Box::new(h4::Histogram::from_ranges(it)?),
        10 => Box::new(h10::Histogram::from_ranges(it)?),
        100 => Box::new(h100::Histogram::from_ranges(it)?),
        7 => Box::new(h7::Histogram::from_ranges(it)?),
        8 => Box::new(h8::Histogram::from_ranges(it)?),
        64 => Box::new(h64::Histogram::from_ranges(it)?),
        256 => Box::new(h256::Histogram::from_ranges(it)?),
        _ => panic!("harness: unsupported LEN"),
    })
}

#[cfg(not(feature = "nightly"))]
pub fn with_const_width(len: usize, a: f64, b: f64) -> Box<dyn Hist> {
    match len {
        1 => Box::new(h1::Histogram::with_const_width(a, b)),
        2 => Box::new(h2::Histogram::with_const_width(a, b)),
        3 => Box::new(h3::Histogram::with_const_width(a, b)),
        4 => Box::new(h4::Histogram::with_const_width(a, b)),
        10 => Box::new(h10::Histogram::with_const_width(a, b)),
        100 => Box::new(h100::Histogram::with_const_width(a, b)),
        7 => Box::new(h7::Histogram::with_const_width(a, b)),
        8 => Box::new(h8::Histogram::with_const_width(a, b)),
        64 => Box::new(h64::Histogram::with_const_width(a, b)),
        256 => Box::new(h256::Histogram::with_const_width(a, b)),
        _ => panic!("harness: unsupported LEN"),
    }
}

/// The const-generic twin `average::histogram_const::Histogram<LEN>` (nightly feature).
/// In a nightly build of the harness the H simulator drives these types instead of the
/// macro-generated ones; they have no serde support, so migrate faults are skipped.
#[cfg(feature = "nightly")]
pub mod cg {
    use super::{f64_eq, item_eq, protocol_probe, Hist};
    use average::histogram_const::{Histogram as CH, InvalidRangeError as CErr};
    use average::{InvalidRangeError, Merge};

    macro_rules! hist_impl_const {
        ($n:expr) => {
            impl Hist for CH<$n> {
                fn len(&self) -> usize {
                    self.bins().len()
                }
                fn find(&self, x: f64) -> Result<usize, ()> {
                    CH::<$n>::find(self, x).map_err(|_| ())
                }
                fn add(&mut self, x: f64) -> Result<(), ()> {
                    CH::<$n>::add(self, x).map_err(|_| ())
                }
                fn bins(&self) -> Vec<u64> {
                    CH::<$n>::bins(self).to_vec()
                }
                fn ranges(&self) -> Vec<f64> {
                    CH::<$n>::ranges(self).to_vec()
                }
                fn range_min(&self) -> f64 {
                    CH::<$n>::range_min(self)
                }
                fn range_max(&self) -> f64 {
                    CH::<$n>::range_max(self)
                }
                fn reset(&mut self) {
                    CH::<$n>::reset(self)
                }
                fn merge_from(&mut self, other: &dyn Hist) {
                    let o = other.as_any().downcast_ref::<CH<$n>>().expect("harness: same LEN");
                    Merge::merge(self, o)
                }
                fn add_assign_from(&mut self, other: &dyn Hist) {
                    let o = other.as_any().downcast_ref::<CH<$n>>().expect("harness: same LEN");
                    *self += o;
                }
                fn mul_assign(&mut self, k: u64) {
                    *self *= k;
                }
                fn boxed_clone(&self) -> Box<dyn Hist> {
                    Box::new(self.clone())
                }
                fn clone_from_other(&mut self, other: &dyn Hist) {
                    let o = other.as_any().downcast_ref::<CH<$n>>().expect("harness: same LEN");
                    Clone::clone_from(self, o)
                }
                fn iter_items(&self) -> Vec<((f64, f64), u64)> {
                    self.iter().collect()
                }
                fn into_iter_items(&self) -> Vec<((f64, f64), u64)> {
                    let mut v = vec![];
                    for it in self {
                        v.push(it);
                    }
                    v
                }
                fn iter_nth(&self, k: usize) -> Option<((f64, f64), u64)> {
                    self.iter().nth(k)
                }
                fn iter_skip(&self, k: usize) -> Vec<((f64, f64), u64)> {
                    self.iter().skip(k).collect()
                }
                fn iter_step_by(&self, k: usize) -> Vec<((f64, f64), u64)> {
                    self.iter().step_by(k.max(1)).collect()
                }
                fn iter_count_last(&self) -> (usize, Option<((f64, f64), u64)>) {
                    (self.iter().count(), self.iter().last())
                }
                fn iter_protocol(&self, j: usize, k: usize) -> Result<(), String> {
                    protocol_probe("iter()", || self.iter(), j, k, item_eq)?;
                    protocol_probe("widths()", || CH::<$n>::widths(self), j, k, f64_eq)?;
                    protocol_probe("centers()", || CH::<$n>::centers(self), j, k, f64_eq)?;
                    protocol_probe("normalized_bins()", || CH::<$n>::normalized_bins(self), j, k, f64_eq)?;
                    protocol_probe("variances()", || CH::<$n>::variances(self), j, k, f64_eq)
                }
                fn variances_via(&self, i: usize) -> Vec<(&'static str, Option<f64>)> {
                    vec![
                        ("variances().nth(i)", CH::<$n>::variances(self).nth(i)),
                        ("variances().skip(i).next()", CH::<$n>::variances(self).skip(i).next()),
                        ("variances().step_by(i+1).nth(1)", CH::<$n>::variances(self).step_by(i + 1).nth(1)),
                        ("variances().take(i+1).last()", CH::<$n>::variances(self).take(i + 1).last()),
                    ]
                }
                fn widths(&self) -> Vec<f64> {
                    CH::<$n>::widths(self).collect()
                }
                fn centers(&self) -> Vec<f64> {
                    CH::<$n>::centers(self).collect()
                }
                fn normalized_bins(&self) -> Vec<f64> {
                    CH::<$n>::normalized_bins(self).collect()
                }
                fn variance(&self, i: usize) -> f64 {
                    CH::<$n>::variance(self, i)
                }
                fn variances(&self) -> Vec<f64> {
                    CH::<$n>::variances(self).collect()
                }
                fn debug(&self) -> String {
                    format!("{:?}", self)
                }
                fn to_json(&self) -> String {
                    "null".to_string() // no serde support: treated as a non-checkpointable state
                }
                fn to_blob(&self, _m: u8) -> String {
                    "null".to_string()
                }
                fn from_json_same(&self, _s: &str) -> Result<Box<dyn Hist>, String> {
                    Err("const-generic histograms have no serde support".into())
                }
                fn as_any(&self) -> &dyn std::any::Any {
                    self
                }
            }
        };
    }
    hist_impl_const!(1);
    hist_impl_const!(2);
    hist_impl_const!(3);
    hist_impl_const!(4);
    hist_impl_const!(10);
    hist_impl_const!(100);
    hist_impl_const!(7);
    hist_impl_const!(8);
    hist_impl_const!(64);
    hist_impl_const!(256);

    fn conv(e: CErr) -> InvalidRangeError {
        match e {
            CErr::NotEnoughRanges => InvalidRangeError::NotEnoughRanges,
            CErr::NotSorted => InvalidRangeError::NotSorted,
            CErr::NaN => InvalidRangeError::NaN,
        }
    }

    pub fn from_ranges(len: usize, edges: &[f64]) -> Result<Box<dyn Hist>, InvalidRangeError> {
        let it = edges.iter().copied();
        Ok(match len {
            1 => Box::new(CH::<1>::from_ranges(it).map_err(conv)?),
            2 => Box::new(CH::<2>::from_ranges(it).map_err(conv)?),
            3 => Box::new(CH::<3>::from_ranges(it).map_err(conv)?),
            4 => Box::new(CH::<4>::from_ranges(it).map_err(conv)?),
            10 => Box::new(CH::<10>::from_ranges(it).map_err(conv)?),
            100 => Box::new(CH::<100>::from_ranges(it).map_err(conv)?),
            7 => Box::new(CH::<7>::from_ranges(it).map_err(conv)?),
            8 => Box::new(CH::<8>::from_ranges(it).map_err(conv)?),
            64 => Box::new(CH::<64>::from_ranges(it).map_err(conv)?),
            256 => Box::new(CH::<256>::from_ranges(it).map_err(conv)?),
            _ => panic!("harness: unsupported LEN"),
        })
    }

    pub fn with_const_width(len: usize, a: f64, b: f64) -> Box<dyn Hist> {
        match len {
            1 => Box::new(CH::<1>::with_const_width(a, b)),
            2 => Box::new(CH::<2>::with_const_width(a, b)),
            3 => Box::new(CH::<3>::with_const_width(a, b)),
            4 => Box::new(CH::<4>::with_const_width(a, b)),
            10 => Box::new(CH::<10>::with_const_width(a, b)),
            100 => Box::new(CH::<100>::with_const_width(a, b)),
            7 => Box::new(CH::<7>::with_const_width(a, b)),
            8 => Box::new(CH::<8>::with_const_width(a, b)),
            64 => Box::new(CH::<64>::with_const_width(a, b)),
            256 => Box::new(CH::<256>::with_const_width(a, b)),
            _ => panic!("harness: unsupported LEN"),
        }
    }
}
