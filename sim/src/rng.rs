//! The only source of randomness in the simulator: splitmix64.
//! One `u64` decides a whole run. Never drawn from logging or oracle code.

#[derive(Clone, Debug)]
pub struct Rng(pub u64);

pub fn mix(a: u64, b: u64) -> u64 {
    let mut r = Rng(a ^ b.wrapping_mul(0xD6E8FEB86659FD93).rotate_left(17));
    r.next();
    r.next()
}

impl Rng {
    pub fn new(seed: u64) -> Rng {
        Rng(seed)
    }
    #[inline]
    pub fn next(&mut self) -> u64 {
        self.0 = self.0.wrapping_add(0x9E3779B97F4A7C15);
        let mut z = self.0;
        z = (z ^ (z >> 30)).wrapping_mul(0xBF58476D1CE4E5B9);
        z = (z ^ (z >> 27)).wrapping_mul(0x94D049BB133111EB);
        z ^ (z >> 31)
    }
    /// uniform in [0,1)
    #[inline]
    pub fn f(&mut self) -> f64 {
        (self.next() >> 11) as f64 / (1u64 << 53) as f64
    }
    /// uniform in 0..n (n > 0)
    #[inline]
    pub fn below(&mut self, n: u64) -> u64 {
        debug_assert!(n > 0);
        self.next() % n
    }
    #[inline]
    pub fn usize(&mut self, n: usize) -> usize {
        self.below(n as u64) as usize
    }
    /// inclusive range
    #[inline]
    pub fn range(&mut self, lo: usize, hi: usize) -> usize {
        lo + self.usize(hi - lo + 1)
    }
    #[inline]
    pub fn chance(&mut self, p: f64) -> bool {
        self.f() < p
    }
    pub fn normal(&mut self) -> f64 {
        let u1 = self.f().max(1e-300);
        let u2 = self.f();
        (-2.0 * u1.ln()).sqrt() * (2.0 * std::f64::consts::PI * u2).cos()
    }
    pub fn pick<T: Copy>(&mut self, v: &[T]) -> T {
        v[self.usize(v.len())]
    }
    pub fn shuffle<T>(&mut self, v: &mut [T]) {
        for i in (1..v.len()).rev() {
            let j = self.usize(i + 1);
            v.swap(i, j);
        }
    }
    pub fn fork(&mut self) -> Rng {
        Rng(self.next())
    }
}
