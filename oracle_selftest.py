#!/usr/bin/env python3
"""Cross-check of the harness' big-integer oracle (sim/src/exact.rs) against python fractions."""
import json, sys
from fractions import Fraction
from math import isnan

cases = json.load(open(sys.argv[1]))
bad = 0
def f(bits):
    import struct
    return struct.unpack('<d', struct.pack('<Q', bits))[0]
def close(a, b):
    if a == b: return True
    if b == 0: return abs(a) < 1e-300
    return abs(a - b) <= 1e-13 * abs(b)
for c in cases:
    xs = [Fraction(f(b)) for b in c['data']]
    n = len(xs)
    mean = sum(xs) / n
    if not close(c['mean'], float(mean)): bad += 1; print('mean', c['mean'], float(mean))
    for p in range(2, len(c['central'])):
        m = sum((x - mean) ** p for x in xs) / n
        a = sum(abs(x - mean) ** p for x in xs) / n
        try:
            fm, fa = float(m), float(a)
        except OverflowError:
            continue
        if fa != 0 and abs(fa) < 1e-290: continue
        if not close(c['central'][p], fm): bad += 1; print('central', p, c['central'][p], fm)
        if not close(c['abs_central'][p], fa): bad += 1; print('abs', p, c['abs_central'][p], fa)
    if 'ys' in c:
        ys = [Fraction(f(b)) for b in c['ys']]
        my = sum(ys) / n
        co = sum((x - mean) * (y - my) for x, y in zip(xs, ys)) / n
        if not close(c['cxy'], float(co)): bad += 1; print('cxy', c['cxy'], float(co))
        sw = sum(ys); sw2 = sum(y * y for y in ys)
        if not close(c['sum_w'], float(sw)): bad += 1; print('sum_w')
        if not close(c['sum_w2'], float(sw2)): bad += 1; print('sum_w2')
        if sw != 0:
            wm = sum(x * y for x, y in zip(xs, ys)) / sw
            if not close(c['wmean'], float(wm)): bad += 1; print('wmean', c['wmean'], float(wm))
print(f"oracle selftest: {len(cases)} cases, {bad} mismatches")
sys.exit(1 if bad else 0)
